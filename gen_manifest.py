#!/usr/bin/env python3
"""Regenerates MANIFEST.json from checks.py."""
import json, os, sys
sys.path.insert(0, os.path.dirname(os.path.abspath(__file__)))
from checks import CHECKS

base = json.load(open("/root/.vp/BASELINE.json"))
LEVEL_TEXT = {
 "exploration": "Runtime monitoring: the real code is executed on the workload described in the evidence rule and an independent oracle judges every execution; holds on what was observed, says nothing about unexplored inputs or schedules.",
 "fault_enumeration": "Runtime monitoring with fault injection: the fault/outcome sequences named in the rule are enumerated exhaustively to the stated depth (random beyond) and every execution is judged by an oracle; holds on the enumerated faults.",
}
DESIGN_REF = {k: "DESIGN.md §5 " + k for k in CHECKS}
checks = []
for pid in sorted(CHECKS):
    c = CHECKS[pid]
    checks.append(dict(
        property_id=pid,
        quick_cmd="./check %s --tier quick" % pid,
        thorough_cmd="./check %s --tier thorough" % pid,
        evidence_file="/verif/evidence/%s.json" % pid,
        replay_cmd_template="./check %s --replay {path}" % pid,
        engine="vctl",
        level_claimed=dict(category=c["level"], text=LEVEL_TEXT[c["level"]] + " " + c.get("level_extra", ""), design_ref=DESIGN_REF[pid]),
        level_note="; ".join(c.get("assumptions", [])) or "none beyond the Go toolchain (go1.26.8) and the pinned module cache",
        technique=c["technique"],
    ))
all_props = [json.loads(l)["id"] for l in open(os.path.join(os.path.dirname(os.path.abspath(__file__)), "properties.jsonl"))]
na = [dict(property_id=p, reason="check not built yet") for p in all_props if p not in CHECKS]
m = dict(
    version=1,
    setup_cmd="./setup.sh",
    hooks=dict(
        guard="verif",
        enable="no source hooks: drivers live in /verif/drivers and are injected with `go1.26.8 test -tags verif -overlay … -modfile …` (./check does this); /repo carries no instrumentation",
        baseline_off_cmd=base["cmd"],
        source_commits=[],
        add_only=True,
    ),
    engines=[dict(name="vctl", path="/verif/check", serves_properties=sorted(CHECKS),
                  kind_free_text="runtime monitoring: Go drivers injected by build overlay run the real code in child processes (testing/synctest virtual time, fakes at existing seams, race detector, porcupine); python orchestrator merges verdicts and writes evidence")],
    checks=checks,
    notes="Genuine defects found by these monitors and repaired by 'fix:' commits in /repo are listed in /verif/known_findings.json (status fixed).",
    not_applicable=na,
)
json.dump(m, open(os.path.join(os.path.dirname(os.path.abspath(__file__)), "MANIFEST.json"), "w"), indent=1)
print("wrote MANIFEST.json with", len(checks), "checks;", len(na), "not claimed")
