package vlib

import (
	"fmt"
	"os"
	"runtime"
	"runtime/metrics"
	"strings"
	"sync/atomic"
	"syscall"
	"time"
)

// The runaway watchdog: a scenario of the system under test that spins without
// ever blocking never lets a synctest bubble's clock advance, records nothing in
// the trace and, if it allocates, ends with the shard being killed for lack of
// memory — a dead check instead of a verdict.  The watchdog judges the resources
// the process has consumed since the current case began (CPU time and live
// heap — both independent of how loaded the machine is, unlike elapsed time)
// and, beyond a budget no scenario comes near, panics on its own goroutine:
// ./check attributes the death to the case named in the .cur file and reports
// it as a crash with the goroutine dump.
var (
	caseCPU0  atomic.Int64 // CPU ns consumed by the process when the current case began
	caseHeap0 atomic.Int64 // live heap bytes at that moment
	caseName  atomic.Value
	wdOnce    atomic.Bool
)

func cpuNanos() int64 {
	var ru syscall.Rusage
	if syscall.Getrusage(syscall.RUSAGE_SELF, &ru) != nil {
		return 0
	}
	return ru.Utime.Nano() + ru.Stime.Nano()
}

func heapBytes() int64 {
	s := []metrics.Sample{{Name: "/memory/classes/heap/objects:bytes"}}
	metrics.Read(s)
	if s[0].Value.Kind() == metrics.KindUint64 {
		return int64(s[0].Value.Uint64())
	}
	return 0
}

// the largest consumption of any finished case (reported in the evidence, to
// show the margin to the budgets)
var maxCaseCPU, maxCaseHeap atomic.Int64

func markCase(id string) {
	c, h := cpuNanos(), heapBytes()
	if caseName.Load() != nil {
		if d := c - caseCPU0.Load(); d > maxCaseCPU.Load() {
			maxCaseCPU.Store(d)
		}
		if g := h - caseHeap0.Load(); g > maxCaseHeap.Load() {
			maxCaseHeap.Store(g)
		}
	}
	caseCPU0.Store(c)
	caseHeap0.Store(h)
	caseName.Store(id)
}

// Bubbles: while a synctest bubble is running nothing waits for real time, so a
// process that consumes no CPU for a long while is not idle but stuck - on a
// lock, which a bubble cannot see (a goroutine parked on a sync.Mutex is not
// "durably blocked", so the bubble neither advances its clock nor reports a
// deadlock).  BubbleEnter / BubbleExit bracket every bubble.
var (
	bubbleDepth atomic.Int32
	bubbleSince atomic.Int64 // unix nanos of the last BubbleEnter
)

func BubbleEnter() { bubbleSince.Store(time.Now().UnixNano()); bubbleDepth.Add(1) }
func BubbleExit()  { bubbleDepth.Add(-1) }

// stuckVerdict reports whether the process is stuck: in the dump of all
// goroutines none but the caller is runnable or running (a process that is
// merely starved of CPU has runnable goroutines).
func stuckVerdict() (bool, string) {
	buf := make([]byte, 8<<20)
	buf = buf[:runtime.Stack(buf, true)]
	dump := string(buf)
	runnable := 0
	for i, g := range strings.Split(dump, "\n\n") {
		head := g
		if j := strings.IndexByte(g, '\n'); j >= 0 {
			head = g[:j]
		}
		if i == 0 {
			continue // the watchdog itself, running
		}
		if strings.Contains(g, "os/signal.signal_recv") {
			continue // the signal loop sits in [syscall] for ever
		}
		if strings.Contains(head, "[runnable") || strings.Contains(head, "[running") || strings.Contains(head, "[syscall") {
			runnable++
		}
	}
	return runnable == 0, dump
}

func startWatchdog() {
	if !wdOnce.CompareAndSwap(false, true) {
		return
	}
	cpuBudget := time.Duration(envInt("VERIF_CASE_CPU_S", 150)) * time.Second
	heapBudget := int64(envInt("VERIF_CASE_HEAP_MB", 1536)) << 20
	stuckAfter := time.Duration(envInt("VERIF_BUBBLE_STUCK_S", 45)) * time.Second
	go func() {
		var quietSince time.Time
		var quietCPU int64
		for {
			time.Sleep(50 * time.Millisecond)
			id, _ := caseName.Load().(string)
			// a bubble that burns (almost) no CPU over a whole window: stuck on a lock?
			if bubbleDepth.Load() > 0 {
				c := cpuNanos()
				switch {
				case quietSince.IsZero() || time.Unix(0, bubbleSince.Load()).After(quietSince):
					quietSince, quietCPU = time.Now(), c // a new bubble: a new window
				case time.Since(quietSince) > stuckAfter:
					if time.Duration(c-quietCPU) < stuckAfter/50 {
						if stuck, dump := stuckVerdict(); stuck {
							fmt.Fprintf(os.Stderr, "verif: stuck scenario %q\n%s\n", id, dump)
							panic(fmt.Sprintf("verif: stuck scenario: inside a bubble the process used next to no CPU for %v and no goroutine is runnable (goroutines parked on a lock: a deadlock the bubble cannot see)", stuckAfter))
						}
					}
					quietSince, quietCPU = time.Now(), c
				}
			} else {
				quietSince = time.Time{}
			}
			if d := time.Duration(cpuNanos() - caseCPU0.Load()); d > cpuBudget {
				fmt.Fprintf(os.Stderr, "verif: runaway scenario %q\n", id)
				panic(fmt.Sprintf("verif: runaway scenario: %v of CPU time consumed since the case began, and it has not finished (a goroutine spins)", d.Round(time.Second)))
			}
			if heapBytes()-caseHeap0.Load() > heapBudget {
				// garbage does not count (some passes run with the collector off)
				runtime.GC()
			}
			if g := heapBytes() - caseHeap0.Load(); g > heapBudget {
				fmt.Fprintf(os.Stderr, "verif: runaway scenario %q\n", id)
				panic(fmt.Sprintf("verif: runaway scenario: the live heap grew by %d MiB since the case began, and it has not finished (a goroutine spins and allocates)", g>>20))
			}
		}
	}()
}
