// Package vlib is the small runtime shared by every driver that /verif injects
// into CoreRAD's packages: sharding, deterministic PRNGs, the per-case crash
// marker, violation records and the per-shard summary that ./check merges into
// evidence.  It imports nothing from CoreRAD.
package vlib

import (
	"encoding/json"
	"fmt"
	"hash/fnv"
	"math/rand"
	"os"
	"runtime"
	"runtime/debug"
	"sort"
	"strconv"
	"strings"
	"sync"
	"time"
)

// A Run is one shard of one part of one property check.
type Run struct {
	Prop, Part, Tier string
	Seed             int64
	Shard, Shards    int
	Only             string // replay: run only the case with this id

	mu         sync.Mutex
	out        *os.File
	cur        *os.File
	start      time.Time
	counters   map[string]int64
	maxes      map[string]int64
	mins       map[string]int64
	distinct   map[string]map[uint64]struct{}
	samples    []any
	sampleCap  int
	violations int
	evals      int64
	nontrivial map[uint64]struct{}
	notes      map[string]string
}

func envInt(k string, def int) int {
	if v := os.Getenv(k); v != "" {
		if n, err := strconv.Atoi(v); err == nil {
			return n
		}
	}
	return def
}

var gcOff = os.Getenv("GOGC") == "off"

// Start opens a run from the environment set by ./check.  When VERIF_OUT is not
// set (somebody ran `go test` by hand) output goes to stdout.
func Start(prop, part string) *Run {
	r := &Run{
		Prop: prop, Part: part,
		Tier:       os.Getenv("VERIF_TIER"),
		Seed:       int64(envInt("VERIF_SEED", 1)),
		Shard:      envInt("VERIF_SHARD", 0),
		Shards:     envInt("VERIF_SHARDS", 1),
		Only:       os.Getenv("VERIF_ONLY"),
		start:      time.Now(),
		counters:   map[string]int64{},
		maxes:      map[string]int64{},
		mins:       map[string]int64{},
		distinct:   map[string]map[uint64]struct{}{},
		nontrivial: map[uint64]struct{}{},
		notes:      map[string]string{},
		sampleCap:  6,
	}
	if r.Tier == "" {
		r.Tier = "quick"
	}
	if p := os.Getenv("VERIF_OUT"); p != "" {
		f, err := os.OpenFile(p, os.O_CREATE|os.O_WRONLY|os.O_TRUNC, 0o644)
		if err != nil {
			panic(err)
		}
		r.out = f
		c, err := os.OpenFile(p+".cur", os.O_CREATE|os.O_WRONLY|os.O_TRUNC, 0o644)
		if err != nil {
			panic(err)
		}
		r.cur = c
	} else {
		r.out = os.Stdout
	}
	startWatchdog()
	return r
}

// Quick reports whether this is the quick tier.
func (r *Run) Quick() bool { return r.Tier != "thorough" }

// Pick returns q in the quick tier and t in the thorough tier.
func (r *Run) Pick(q, t int) int {
	if r.Quick() {
		return q
	}
	return t
}

// Hash64 hashes a string (FNV-1a).
func Hash64(s string) uint64 {
	h := fnv.New64a()
	_, _ = h.Write([]byte(s))
	return h.Sum64()
}

// Mine reports whether the case with this identity belongs to this shard.
// Identical cases always land in the same shard, which keeps the distinct
// counts exact when shards are summed.
func (r *Run) Mine(id string) bool {
	if r.Only != "" {
		return id == r.Only
	}
	if r.Shards <= 1 {
		return true
	}
	return int(Hash64(id)%uint64(r.Shards)) == r.Shard
}

// Begin marks the case that is about to execute, so that a process-fatal event
// (collector panic, checkptr, race abort) can be attributed to it.
func (r *Run) Begin(id string) {
	r.mu.Lock()
	r.evals++
	n := r.evals
	r.mu.Unlock()
	// Deterministic passes run with GOGC=off so that a collection cannot
	// reschedule goroutines in the middle of a scenario; collect between
	// scenarios instead, where nothing of the system under test is running.
	if gcOff && n%64 == 0 {
		runtime.GC()
	}
	markCase(id)
	if r.cur != nil {
		b := make([]byte, 512)
		for i := range b {
			b[i] = ' '
		}
		copy(b, id)
		b[511] = '\n'
		_, _ = r.cur.WriteAt(b, 0)
	}
}

// Evals adds n to the number of evaluations without marking a case.
func (r *Run) Evals(n int) {
	r.mu.Lock()
	r.evals += int64(n)
	r.mu.Unlock()
}

// Nontrivial records that the case with this identity is non-trivial by the
// property's rule.
func (r *Run) Nontrivial(id string) {
	h := Hash64(id)
	r.mu.Lock()
	r.nontrivial[h] = struct{}{}
	r.mu.Unlock()
}

// Count adds n to a named counter reported in the evidence.
func (r *Run) Count(name string, n int) {
	r.mu.Lock()
	r.counters[name] += int64(n)
	r.mu.Unlock()
}

// Max / Min track extremes of observed quantities.
func (r *Run) Max(name string, v int64) {
	r.mu.Lock()
	if old, ok := r.maxes[name]; !ok || v > old {
		r.maxes[name] = v
	}
	r.mu.Unlock()
}

func (r *Run) Min(name string, v int64) {
	r.mu.Lock()
	if old, ok := r.mins[name]; !ok || v < old {
		r.mins[name] = v
	}
	r.mu.Unlock()
}

// Distinct records a value in a named set whose cardinality is reported.
func (r *Run) Distinct(set, v string) {
	h := Hash64(v)
	r.mu.Lock()
	m := r.distinct[set]
	if m == nil {
		m = map[uint64]struct{}{}
		r.distinct[set] = m
	}
	m[h] = struct{}{}
	r.mu.Unlock()
}

// Note records a free-form fact for the evidence (last write wins).
func (r *Run) Note(k, v string) {
	r.mu.Lock()
	r.notes[k] = v
	r.mu.Unlock()
}

// Sample keeps a few actual cases for the evidence file.
func (r *Run) Sample(v any) {
	r.mu.Lock()
	if len(r.samples) < r.sampleCap {
		r.samples = append(r.samples, v)
	}
	r.mu.Unlock()
}

// WantSample reports whether another sample would be kept.
func (r *Run) WantSample() bool {
	r.mu.Lock()
	defer r.mu.Unlock()
	return len(r.samples) < r.sampleCap
}

type record struct {
	T      string `json:"t"`
	Prop   string `json:"prop"`
	Part   string `json:"part"`
	Case   string `json:"case,omitempty"`
	Class  string `json:"class,omitempty"`
	What   string `json:"what,omitempty"`
	Detail any    `json:"detail,omitempty"`
}

func (r *Run) emit(v any) {
	b, err := json.Marshal(v)
	if err != nil {
		b, _ = json.Marshal(map[string]string{"t": "error", "what": "marshal: " + err.Error()})
	}
	r.mu.Lock()
	_, _ = r.out.Write(append(b, '\n'))
	r.mu.Unlock()
}

// Violation records a refuting observation.  class is a stable, coarse
// identification of *what* failed (used to match known findings); what is the
// human-readable sentence; detail is the witness (case + trace excerpt).
func (r *Run) Violation(caseID, class, what string, detail any) {
	r.mu.Lock()
	r.violations++
	n := r.violations
	r.mu.Unlock()
	if n > 200 {
		// Keep counting but do not flood the log.
		return
	}
	r.emit(record{T: "violation", Prop: r.Prop, Part: r.Part, Case: caseID, Class: class, What: what, Detail: detail})
}

// Inconclusive records that something could not be decided.
func (r *Run) Inconclusive(caseID, what string) {
	r.Count("inconclusive", 1)
	r.emit(record{T: "inconclusive", Prop: r.Prop, Part: r.Part, Case: caseID, What: what})
}

// Guard runs fn and converts a panic into a violation of the given class.
// It returns false when fn panicked.
func (r *Run) Guard(caseID, class string, fn func()) (ok bool) {
	defer func() {
		if p := recover(); p != nil {
			ok = false
			st := string(debug.Stack())
			r.Violation(caseID, class, fmt.Sprintf("panic: %v", p), map[string]any{"stack": TrimStack(st)})
		}
	}()
	fn()
	return true
}

// TrimStack keeps the informative part of a stack trace.
func TrimStack(s string) string {
	lines := strings.Split(s, "\n")
	if len(lines) > 40 {
		lines = lines[:40]
	}
	return strings.Join(lines, "\n")
}

// Finish writes the shard summary.  A shard without a summary line is treated
// by ./check as having died.
func (r *Run) Finish() {
	markCase("(after the last case)")
	r.mu.Lock()
	if v := maxCaseCPU.Load() / 1e6; v > r.maxes["case_cpu_ms_max"] {
		r.maxes["case_cpu_ms_max"] = v
	}
	if v := maxCaseHeap.Load() >> 20; v > r.maxes["case_heap_growth_mib_max"] {
		r.maxes["case_heap_growth_mib_max"] = v
	}
	dist := map[string]int{}
	for k, v := range r.distinct {
		dist[k] = len(v)
	}
	sum := map[string]any{
		"t": "summary", "prop": r.Prop, "part": r.Part, "tier": r.Tier, "seed": r.Seed,
		"shard": r.Shard, "shards": r.Shards,
		"evaluations": r.evals, "distinct_nontrivial": len(r.nontrivial),
		"violations": r.violations, "counters": r.counters, "max": r.maxes, "min": r.mins,
		"distinct": dist, "samples": r.samples, "notes": r.notes,
		"wall_s": time.Since(r.start).Seconds(),
	}
	r.mu.Unlock()
	r.emit(sum)
	if r.out != os.Stdout {
		_ = r.out.Sync()
	}
}

// Rand returns a PRNG determined by the run's seed and the given labels only.
func (r *Run) Rand(labels ...string) *rand.Rand {
	return NewRand(r.Seed, labels...)
}

// NewRand returns a PRNG determined by seed and labels.
func NewRand(seed int64, labels ...string) *rand.Rand {
	h := fnv.New64a()
	fmt.Fprintf(h, "%d", seed)
	for _, l := range labels {
		_, _ = h.Write([]byte{0})
		_, _ = h.Write([]byte(l))
	}
	return rand.New(rand.NewSource(int64(h.Sum64())))
}

// SortedKeys returns the sorted keys of a map with string keys.
func SortedKeys[V any](m map[string]V) []string {
	ks := make([]string, 0, len(m))
	for k := range m {
		ks = append(ks, k)
	}
	sort.Strings(ks)
	return ks
}
