// Package vfake holds the fakes the Tier V monitors put at CoreRAD's existing
// seams (system.Conn, system.State, the logger writer).  Every call is recorded
// as a trace event stamped with the (virtual) clock, and scripted messages,
// errors and latencies can be injected.  The fakes must be constructed inside a
// testing/synctest bubble so that their channels belong to it.
package vfake

import (
	"errors"
	"fmt"
	"net/netip"
	"os"
	"runtime"
	"strings"
	"sync"
	"syscall"
	"time"

	"github.com/mdlayher/ndp"
	"golang.org/x/net/ipv6"
	"verif.local/model"
)

// An Event is one observation.
type Event struct {
	T    time.Duration `json:"t"` // since trace start (virtual)
	Kind string        `json:"k"`
	Gen  int           `json:"gen,omitempty"`
	If   string        `json:"if,omitempty"` // interface the event belongs to
	ID   int           `json:"id,omitempty"`
	Dst  string        `json:"dst,omitempty"`
	Src  string        `json:"src,omitempty"`
	Life int64         `json:"life,omitempty"` // router lifetime of a written RA, ns
	Msg  string        `json:"msg,omitempty"`
	Err  string        `json:"err,omitempty"`
	Val  int64         `json:"val,omitempty"`
	RA   *model.RA     `json:"-"`
}

func (e Event) String() string {
	var b strings.Builder
	fmt.Fprintf(&b, "%v %s", e.T, e.Kind)
	if e.Gen != 0 {
		fmt.Fprintf(&b, " gen=%d", e.Gen)
	}
	if e.ID != 0 {
		fmt.Fprintf(&b, " id=%d", e.ID)
	}
	if e.Dst != "" {
		fmt.Fprintf(&b, " dst=%s", e.Dst)
	}
	if e.Src != "" {
		fmt.Fprintf(&b, " src=%s", e.Src)
	}
	if e.Kind == "write_begin" || e.Kind == "write_end" {
		fmt.Fprintf(&b, " life=%v", time.Duration(e.Life))
	}
	if e.Msg != "" {
		fmt.Fprintf(&b, " %s", e.Msg)
	}
	if e.Err != "" {
		fmt.Fprintf(&b, " err=%q", e.Err)
	}
	if e.Val != 0 {
		fmt.Fprintf(&b, " val=%d", e.Val)
	}
	return b.String()
}

// A Trace is an append-only event log with one clock.
type Trace struct {
	mu    sync.Mutex
	start time.Time
	ev    []Event
}

func NewTrace() *Trace { return &Trace{start: time.Now()} }

func (t *Trace) Start() time.Time { return t.start }

// Add stamps and appends an event; the timestamp is taken under the lock so
// that the log order is the stamp order.
func (t *Trace) Add(e Event) time.Duration {
	t.mu.Lock()
	e.T = time.Since(t.start)
	t.ev = append(t.ev, e)
	n := len(t.ev)
	t.mu.Unlock()
	if n > MaxEvents {
		// A task that spins (re-dials, transmits or reads without ever waiting)
		// never lets a bubble's clock advance and would only end when the shard
		// runs out of memory.  Die here instead, on the spinning goroutine, with a
		// message ./check attributes to the case that was running.
		var last []string
		t.mu.Lock()
		for _, x := range t.ev[n-12:] {
			last = append(last, x.String())
		}
		t.mu.Unlock()
		panic(fmt.Sprintf("verif: event storm: more than %d events in one scenario without the scenario's clock advancing past %v (the task is spinning); last events: %v", MaxEvents, e.T, last))
	}
	return e.T
}

// MaxEvents bounds the events of one scenario (the largest legitimate ones have
// a few tens of thousands).
const MaxEvents = 1000000

func (t *Trace) Now() time.Duration { return time.Since(t.start) }

// Events returns a copy of the log.
func (t *Trace) Events() []Event {
	t.mu.Lock()
	defer t.mu.Unlock()
	return append([]Event(nil), t.ev...)
}

// Strings renders up to max events.
func Strings(ev []Event, max int) []string {
	var out []string
	for i, e := range ev {
		if i >= max {
			out = append(out, fmt.Sprintf("… %d more", len(ev)-max))
			break
		}
		out = append(out, e.String())
	}
	return out
}

// Signature reduces a trace to its sequence of event kinds and keys.
func Signature(ev []Event) string {
	var b strings.Builder
	for _, e := range ev {
		b.WriteString(e.Kind)
		if e.Dst != "" {
			if e.Dst == "ff02::1" {
				b.WriteString("m")
			} else {
				b.WriteString("u")
			}
		}
		b.WriteByte(';')
	}
	return b.String()
}

// ---------------------------------------------------------------------------

type timeoutErr struct{}

func (timeoutErr) Error() string   { return "i/o timeout (verif)" }
func (timeoutErr) Timeout() bool   { return true }
func (timeoutErr) Temporary() bool { return true }

// ErrTimeout is a net.Error whose Timeout() is true.
var ErrTimeout error = timeoutErr{}

// Common injected errors.
var (
	ErrSyscall    = os.NewSyscallError("recvmsg", syscall.ENETDOWN)
	ErrSyscallBuf = os.NewSyscallError("sendmsg", syscall.ENOBUFS)
	ErrPermission = os.NewSyscallError("sendmsg", syscall.EPERM)
	ErrOther      = errors.New("verif: injected non-syscall error")
)

// An In is one scripted thing a ReadFrom returns.
type In struct {
	ID   int
	Msg  ndp.Message
	Hop  int
	From netip.Addr
	Err  error
}

// A Conn is a fake system.Conn.
type Conn struct {
	Tr  *Trace
	Gen int
	If  string

	// WriteLatency is slept (virtually) inside every WriteTo.
	WriteLatency time.Duration
	// DeadlineLatency is slept (virtually) before a SetReadDeadline takes effect.
	DeadlineLatency time.Duration
	// WriteLatencyOf, when non-nil, gives an additional latency for the n-th
	// write (0-based): the packet is on the wire at write_end.
	WriteLatencyOf func(n int, dst netip.Addr) time.Duration
	// WriteErr, when non-nil, decides the error of the n-th write (0-based).
	WriteErr func(n int, dst netip.Addr) error
	// ReturnLatencyOf: how long the n-th write takes to return AFTER the packet
	// is on the wire (write_end recorded).
	ReturnLatencyOf func(n int, dst netip.Addr) time.Duration
	// OnWrite, when non-nil, is called after write_begin is recorded.
	OnWrite func(n int, dst netip.Addr, ra *ndp.RouterAdvertisement)

	mu       sync.Mutex
	queue    []In
	wake     chan struct{}
	expired  bool
	writes   int
	closed   bool
	reading  bool
	lastRead time.Duration
}

func (c *Conn) zone() string {
	if c.If != "" {
		return c.If
	}
	return "veth0"
}

// NewConn must be called inside the bubble.
func NewConn(tr *Trace, gen int) *Conn {
	return &Conn{Tr: tr, Gen: gen, wake: make(chan struct{}, 1)}
}

func (c *Conn) signal() {
	select {
	case c.wake <- struct{}{}:
	default:
	}
}

// Deliver queues a scripted input; it never blocks.
func (c *Conn) Deliver(in In) {
	c.mu.Lock()
	c.queue = append(c.queue, in)
	c.mu.Unlock()
	c.Tr.Add(Event{Kind: "enqueue", Gen: c.Gen, If: c.If, ID: in.ID})
	c.signal()
}

// Pending returns the number of inputs not yet taken.
func (c *Conn) Pending() int {
	c.mu.Lock()
	defer c.mu.Unlock()
	return len(c.queue)
}

// Reading reports whether a ReadFrom is currently blocked.
func (c *Conn) Reading() bool {
	c.mu.Lock()
	defer c.mu.Unlock()
	return c.reading
}

// Writes returns the number of WriteTo calls so far.
func (c *Conn) Writes() int {
	c.mu.Lock()
	defer c.mu.Unlock()
	return c.writes
}

// ReadFrom implements system.Conn.
func (c *Conn) ReadFrom() (ndp.Message, *ipv6.ControlMessage, netip.Addr, error) {
	// Val: how deep the reader's call stack is when it comes back for the next
	// message (a reader whose stack grows with every message it drops will die
	// of it under a flood).
	var pcs [4096]uintptr
	c.Tr.Add(Event{Kind: "read_wait", Gen: c.Gen, If: c.If, Val: int64(runtime.Callers(0, pcs[:]))})
	for {
		c.mu.Lock()
		if c.expired {
			c.mu.Unlock()
			c.Tr.Add(Event{Kind: "read_timeout", Gen: c.Gen, If: c.If, Msg: "deadline"})
			return nil, nil, netip.Addr{}, ErrTimeout
		}
		if len(c.queue) > 0 {
			in := c.queue[0]
			c.queue = c.queue[1:]
			c.mu.Unlock()
			if in.Err != nil {
				c.Tr.Add(Event{Kind: "read_error", Gen: c.Gen, If: c.If, ID: in.ID, Err: in.Err.Error()})
				return nil, nil, netip.Addr{}, in.Err
			}
			c.Tr.Add(Event{Kind: "read_deliver", Gen: c.Gen, If: c.If, ID: in.ID, Src: in.From.String(), Msg: in.Msg.Type().String(), Val: int64(in.Hop)})
			// Like *ndp.Conn, always attach the zone of the interface that backs the
			// connection to the source address, the unspecified address included.
			return in.Msg, &ipv6.ControlMessage{HopLimit: in.Hop}, in.From.WithZone(c.zone()), nil
		}
		c.reading = true
		c.mu.Unlock()
		<-c.wake
		c.mu.Lock()
		c.reading = false
		c.mu.Unlock()
	}
}

// SetReadDeadline implements system.Conn: a deadline in the past makes pending
// and future reads time out, a zero or future deadline clears that.
func (c *Conn) SetReadDeadline(t time.Time) error {
	if c.DeadlineLatency > 0 {
		// the goroutine that interrupts the reader is slow to get there
		time.Sleep(c.DeadlineLatency)
	}
	c.mu.Lock()
	c.expired = !t.IsZero() && !t.After(time.Now())
	exp := c.expired
	c.mu.Unlock()
	c.Tr.Add(Event{Kind: "deadline", Gen: c.Gen, If: c.If, Val: b2i(exp)})
	c.signal()
	return nil
}

func b2i(b bool) int64 {
	if b {
		return 1
	}
	return 0
}

// WriteTo implements system.Conn.
func (c *Conn) WriteTo(m ndp.Message, _ *ipv6.ControlMessage, dst netip.Addr) error {
	// *ndp.Conn overwrites whatever zone the destination carries with its own.
	dst = dst.WithZone("")
	c.mu.Lock()
	n := c.writes
	c.writes++
	c.mu.Unlock()
	ev := Event{Kind: "write_begin", Gen: c.Gen, If: c.If, ID: n, Dst: dst.String()}
	ra, isRA := m.(*ndp.RouterAdvertisement)
	if isRA {
		x := model.FromNDP(ra)
		ev.RA = &x
		ev.Life = int64(ra.RouterLifetime)
	} else {
		ev.Msg = fmt.Sprintf("non-RA %T", m)
	}
	c.Tr.Add(ev)
	if c.OnWrite != nil && isRA {
		c.OnWrite(n, dst, ra)
	}
	if c.WriteLatency > 0 {
		time.Sleep(c.WriteLatency)
	}
	if c.WriteLatencyOf != nil {
		if d := c.WriteLatencyOf(n, dst); d > 0 {
			time.Sleep(d)
		}
	}
	var err error
	if c.WriteErr != nil {
		err = c.WriteErr(n, dst)
	}
	end := Event{Kind: "write_end", Gen: c.Gen, If: c.If, ID: n, Dst: dst.String(), Life: ev.Life}
	if err != nil {
		end.Err = err.Error()
	}
	c.Tr.Add(end)
	// the packet is on the wire; the call may still take a while to return (the
	// sender is descheduled, a completion is reaped late)
	if c.ReturnLatencyOf != nil && err == nil {
		if d := c.ReturnLatencyOf(n, dst); d > 0 {
			time.Sleep(d)
		}
	}
	return err
}

// ---------------------------------------------------------------------------

// A State is a fake system.State with per-interface values.
type State struct {
	Tr *Trace

	mu   sync.Mutex
	fwd  map[string]bool
	auto map[string]bool
	// ReadLatency is slept inside IPv6Forwarding (the "slow sysctl").
	ReadLatency time.Duration
	// FwdErr decides the error of the n-th IPv6Forwarding call (0-based, global).
	FwdErr  func(n int, iface string) error
	AutoErr func(n int, iface string) error
	SetErr  func(n int, iface string, v bool) error
	// OnFwdBegin, when non-nil, is called when the n-th IPv6Forwarding call
	// begins (before the latency).
	OnFwdBegin        func(n int)
	nFwd, nAuto, nSet int
}

func NewState(tr *Trace) *State {
	return &State{Tr: tr, fwd: map[string]bool{}, auto: map[string]bool{}}
}

func (s *State) SetForwarding(iface string, v bool) {
	s.mu.Lock()
	s.fwd[iface] = v
	s.mu.Unlock()
	s.Tr.Add(Event{Kind: "flip_forwarding", Src: iface, Val: b2i(v)})
}

func (s *State) SetAutoconfValue(iface string, v bool) {
	s.mu.Lock()
	s.auto[iface] = v
	s.mu.Unlock()
}

func (s *State) Autoconf(iface string) bool {
	s.mu.Lock()
	defer s.mu.Unlock()
	return s.auto[iface]
}

func (s *State) FwdReads() int {
	s.mu.Lock()
	defer s.mu.Unlock()
	return s.nFwd
}

func (s *State) IPv6Forwarding(iface string) (bool, error) {
	s.mu.Lock()
	n := s.nFwd
	s.nFwd++
	lat := s.ReadLatency
	hook := s.OnFwdBegin
	s.mu.Unlock()
	s.Tr.Add(Event{Kind: "fwd_read_begin", Src: iface, ID: n})
	if hook != nil {
		hook(n)
	}
	if lat > 0 {
		time.Sleep(lat)
	}
	s.mu.Lock()
	v := s.fwd[iface]
	ef := s.FwdErr
	s.mu.Unlock()
	var err error
	if ef != nil {
		err = ef(n, iface)
	}
	e := Event{Kind: "fwd_read", Src: iface, ID: n, Val: b2i(v)}
	if err != nil {
		e.Err = err.Error()
	}
	s.Tr.Add(e)
	if err != nil {
		return false, err // a failed read carries no value
	}
	return v, nil
}

// SetFwdErr installs (or with nil removes) the forwarding read fault.
func (s *State) SetFwdErr(f func(n int, iface string) error) {
	s.mu.Lock()
	s.FwdErr = f
	s.mu.Unlock()
}

func (s *State) IPv6Autoconf(iface string) (bool, error) {
	s.mu.Lock()
	n := s.nAuto
	s.nAuto++
	v := s.auto[iface]
	ef := s.AutoErr
	s.mu.Unlock()
	var err error
	if ef != nil {
		err = ef(n, iface)
	}
	e := Event{Kind: "autoconf_get", Src: iface, ID: n, Val: b2i(v)}
	if err != nil {
		e.Err = err.Error()
	}
	s.Tr.Add(e)
	if err != nil {
		return false, err // a failed read carries no value
	}
	return v, nil
}

func (s *State) SetIPv6Autoconf(iface string, enable bool) error {
	s.mu.Lock()
	n := s.nSet
	s.nSet++
	ef := s.SetErr
	s.mu.Unlock()
	var err error
	if ef != nil {
		err = ef(n, iface, enable)
	}
	if err == nil {
		s.mu.Lock()
		s.auto[iface] = enable
		s.mu.Unlock()
	}
	e := Event{Kind: "autoconf_set", Src: iface, ID: n, Val: b2i(enable)}
	if err != nil {
		e.Err = err.Error()
	}
	s.Tr.Add(e)
	return err
}

// ---------------------------------------------------------------------------

// A LogWriter records log lines as trace events.
type LogWriter struct {
	Tr *Trace
	// Hook, when non-nil, runs inside every Write (a delay inside the caller).
	Hook func(line string)
}

func (w *LogWriter) Write(p []byte) (int, error) {
	line := strings.TrimRight(string(p), "\n")
	w.Tr.Add(Event{Kind: "log", Msg: line})
	if w.Hook != nil {
		w.Hook(line)
	}
	return len(p), nil
}
