//go:build verif

package netstate

import (
	"context"
	"errors"
	"fmt"
	"math/rand"
	"os"
	"runtime"
	"strings"
	"sync"
	"sync/atomic"
	"testing"
	"testing/synctest"
	"time"

	"github.com/anishathalye/porcupine"
	"github.com/jsimonetti/rtnetlink"
	"verif.local/vlib"
)

var vChanges = []Change{LinkUp, LinkDown, LinkTesting, LinkUnknown, LinkDormant, LinkNotPresent, LinkLowerLayerDown}

// vDrain reads everything currently available without blocking.
func vDrain(c <-chan Change) (got []Change, closed bool) {
	for {
		select {
		case v, ok := <-c:
			if !ok {
				return got, true
			}
			got = append(got, v)
		default:
			return got, false
		}
	}
}

func vBubble(t *testing.T, fn func()) (msg string) {
	defer func() {
		if p := recover(); p != nil {
			msg = fmt.Sprint(p)
		}
	}()
	vlib.BubbleEnter()
	defer vlib.BubbleExit()
	synctest.Test(t, func(*testing.T) { fn() })
	return ""
}

// runWatch drives the real Watch with a scripted watch function.
func runWatch(w *Watcher, script func(notify func(changeSet))) (err error, pan any) {
	defer func() {
		if p := recover(); p != nil {
			pan = p
		}
	}()
	ctx, cancel := context.WithCancel(context.Background())
	defer cancel()
	if vWatchCancelAfter == -2 {
		// the context is already cancelled when Watch is entered (a sibling task
		// failed during start-up): watching still begins and ends, and when it has
		// ended every subscriber's channel is closed
		cancel()
	}
	w.watch = func(ctx context.Context, notify func(changeSet)) error {
		calls := 0
		script(func(cs changeSet) {
			// The context is cancelled while the OS loop still has changes to
			// report (a receive already in flight when the stop arrives): watching
			// has not ended until the loop returns, so they are notified as usual.
			if calls == vWatchCancelAfter {
				cancel()
				func() {
					defer func() { _ = recover() }() // outside a bubble there is nothing to wait for
					synctest.Wait()
				}()
			}
			calls++
			notify(cs)
		})
		return vWatchEndErr
	}
	return w.Watch(ctx), nil
}

// vWatchCancelAfter: the Watch context is cancelled just before this notify
// call (0-based) of the scripted loop; -1 = never; -2 = before Watch is entered.
var vWatchCancelAfter = -1

// vWatchEndErr is what the scripted OS watch loop ends with: watching ends
// cleanly (nil) or because the OS source failed; subscribers must see their
// channels closed either way.
var vWatchEndErr error

var vErrWatch = errors.New("verif: netlink receive failed")

func vSetWatchEnd(id string) {
	vWatchEndErr = nil
	if vlib.Hash64("end/"+id)%2 == 0 {
		vWatchEndErr = vErrWatch
	}
	vWatchCancelAfter = -1
	if h := vlib.Hash64("cancel/" + id); h%3 == 0 {
		vWatchCancelAfter = int(h/3%5) - 1
		if vWatchCancelAfter == -1 {
			vWatchCancelAfter = -2 // cancelled before Watch is entered
		}
	}
}

// TestVerifC19 — link-state subscribers get exactly what they asked for.
func TestVerifC19(t *testing.T) {
	part := os.Getenv("VERIF_PART")
	if part == "" {
		part = "seq"
	}
	r := vlib.Start("C19", part)
	defer r.Finish()
	if part == "lin" {
		c19Linearizability(t, r)
		return
	}

	// (1) exhaustive singles: 127 masks × 7 changes × {same, other} interface.
	for mask := Change(1); mask <= LinkAny; mask++ {
		id := fmt.Sprintf("single/%d", mask)
		if !r.Mine(id) {
			continue
		}
		r.Begin(id)
		vSetWatchEnd(id)
		for _, ch := range vChanges {
			for _, same := range []bool{true, false} {
				r.Evals(1)
				r.Count("exhaustive_singles", 1)
				target := "eth0"
				if !same {
					target = "eth1"
				}
				var pan any
				var got, og []Change
				var closed, oc bool
				msg := vBubble(t, func() {
					w := NewWatcher()
					c := w.Subscribe("eth0", mask)
					other := w.Subscribe("eth1", LinkAny)
					_, pan = runWatch(w, func(notify func(changeSet)) { notify(changeSet{target: []Change{ch}}) })
					got, closed = vDrain(c)
					og, oc = vDrain(other)
				})
				det := map[string]any{"mask": mask.String(), "change": ch.String(), "same_interface": same}
				if msg != "" || pan != nil {
					r.Violation(id, "panic-or-block", fmt.Sprintf("notification/end-of-watch panicked or blocked: %v %v", msg, pan), det)
					continue
				}
				want := same && mask&ch != 0
				if (len(got) == 1 && got[0] == ch) != want || len(got) > 1 {
					r.Violation(id, "wrong-delivery", fmt.Sprintf("subscriber with mask %q received %v for change %q on %s", mask, got, ch, target), det)
				}
				if !closed {
					r.Violation(id, "not-closed", "subscriber channel not closed at end of watch", det)
				}
				if (len(og) == 1) != !same || !oc {
					r.Violation(id, "wrong-delivery", fmt.Sprintf("LinkAny subscriber of the other interface received %v closed=%v", og, oc), det)
				}
			}
		}
		r.Nontrivial(id)
	}

	// (2) sequences × subscribers × undrained counts, FIFO-of-8 model.
	rr := r.Rand("c19", "seq")
	n := r.Pick(3000, 1000000)
	ifaces := []string{"eth0", "eth1", "wan0"}
	for i := 0; i < n; i++ {
		id := fmt.Sprintf("seq/%d", i)
		seed := rr.Int63()
		if !r.Mine(id) {
			continue
		}
		r.Begin(id)
		vSetWatchEnd(id)
		sr := rand.New(rand.NewSource(seed))
		type sub struct {
			iface  string
			mask   Change
			c      <-chan Change
			q      []Change // model
			got    []Change
			want   []Change
			closed bool
		}
		var subs []*sub
		for k, m := 0, 1+sr.Intn(5); k < m; k++ {
			s := &sub{iface: ifaces[sr.Intn(len(ifaces))], mask: Change(1 + sr.Intn(int(LinkAny)))}
			if sr.Intn(4) == 0 && k > 0 {
				s.iface, s.mask = subs[0].iface, subs[0].mask // identical subscription
			}
			subs = append(subs, s)
		}
		nch := 1 + sr.Intn(20)
		flood := sr.Intn(3) == 0
		big := i%4 == 2
		if big {
			nch = 20 + sr.Intn(30)
			r.Count("scenarios_with_large_batches", 1)
		}
		if flood {
			// 0…12+ undrained events on one interface: around and beyond the buffer
			nch = 6 + sr.Intn(10)
			subs[0].iface, subs[0].mask = ifaces[0], LinkAny
		}
		var viol string
		var pan any
		dropped := 0
		msg := vBubble(t, func() {
			w := NewWatcher()
			for _, s := range subs {
				s.c = w.Subscribe(s.iface, s.mask)
			}
			_, pan = runWatch(w, func(notify func(changeSet)) {
				for k := 0; k < nch; {
					// one call carries 1–3 changes on 1–2 interfaces; one scenario in four
					// has large batches (a burst of up to 24 changes read in one receive,
					// longer than a subscriber's buffer: a selective mask may match only
					// the late ones)
					cs := changeSet{}
					per := 1 + sr.Intn(3)
					if big {
						per = 9 + sr.Intn(16)
					}
					for j, m := 0, per; j < m && k < nch; j++ {
						ifc := ifaces[sr.Intn(len(ifaces))]
						if flood {
							ifc = ifaces[0]
						}
						ch := vChanges[sr.Intn(len(vChanges))]
						cs[ifc] = append(cs[ifc], ch)
						k++
					}
					notify(cs)
					for _, s := range subs {
						for _, ch := range cs[s.iface] {
							if ch&s.mask != 0 {
								if len(s.q) < 8 {
									s.q = append(s.q, ch)
									s.want = append(s.want, ch)
								} else {
									dropped++
								}
							}
						}
					}
					// sometimes a subscriber drains a little
					if sr.Intn(3) == 0 && !flood {
						s := subs[sr.Intn(len(subs))]
						for d, m := 0, 1+sr.Intn(4); d < m && len(s.q) > 0; d++ {
							select {
							case v := <-s.c:
								s.got = append(s.got, v)
								s.q = s.q[1:]
							default:
								viol = "a queued notification was not available to the subscriber"
							}
						}
					}
				}
			})
			for _, s := range subs {
				rest, closed := vDrain(s.c)
				s.got = append(s.got, rest...)
				s.closed = closed
			}
		})
		det := map[string]any{"seed": seed, "subscribers": len(subs), "changes": nch}
		if msg != "" || pan != nil {
			r.Violation(id, "panic-or-block", fmt.Sprintf("notify blocked or panicked: %v %v", msg, pan), det)
			continue
		}
		for k, s := range subs {
			closed := s.closed
			if fmt.Sprint(s.got) != fmt.Sprint(s.want) && viol == "" {
				viol = fmt.Sprintf("subscriber %d (%s, mask %q) received %v, want exactly %v", k, s.iface, s.mask, s.got, s.want)
			}
			if !closed && viol == "" {
				viol = fmt.Sprintf("subscriber %d channel not closed at end of watch", k)
			}
		}
		r.Count("notifications_dropped_at_full_buffer", dropped)
		if viol != "" {
			r.Violation(id, "wrong-delivery", viol, det)
			continue
		}
		r.Nontrivial(id)
		if r.WantSample() && dropped > 0 {
			r.Sample(map[string]any{"id": id, "subscribers": len(subs), "changes": nch, "dropped": dropped, "first_subscriber_received": fmt.Sprint(subs[0].got)})
		}
	}

	// (3) operstate mapping through the real process().
	if r.Mine("process") {
		r.Begin("process")
		states := map[rtnetlink.OperationalState]Change{rtnetlink.OperStateUnknown: LinkUnknown, rtnetlink.OperStateNotPresent: LinkNotPresent, rtnetlink.OperStateDown: LinkDown,
			rtnetlink.OperStateLowerLayerDown: LinkLowerLayerDown, rtnetlink.OperStateTesting: LinkTesting, rtnetlink.OperStateDormant: LinkDormant, rtnetlink.OperStateUp: LinkUp}
		var msgs []rtnetlink.Message
		var want []Change
		for s := rtnetlink.OperationalState(0); s < 12; s++ {
			msgs = append(msgs, &rtnetlink.LinkMessage{Attributes: &rtnetlink.LinkAttributes{Name: "eth0", OperationalState: s}})
			if c, ok := states[s]; ok {
				want = append(want, c)
			}
		}
		msgs = append(msgs, &rtnetlink.LinkMessage{}, &rtnetlink.AddressMessage{})
		got := process(msgs)
		if fmt.Sprint(got["eth0"]) != fmt.Sprint(want) || len(got) != 1 {
			r.Violation("process", "operstate-mapping", fmt.Sprintf("process() produced %v, want eth0:%v", got, want), nil)
		}
	}
}

// ---- concurrent part: porcupine --------------------------------------------------

type c19In struct {
	Op     string // sub notify recv end
	Iface  string
	Mask   Change
	Change Change
	Sub    int
}

type c19State struct {
	Subscribed, Closed bool
	Iface              string
	Mask               Change
	N                  int
	Q                  [8]Change
}

func c19Model() porcupine.Model {
	return porcupine.Model{
		Init: func() interface{} { return c19State{} },
		Step: func(st, in, out interface{}) (bool, interface{}) {
			s := st.(c19State)
			i := in.(c19In)
			switch i.Op {
			case "sub":
				s.Subscribed, s.Iface, s.Mask = true, i.Iface, i.Mask
				return true, s
			case "notify":
				if s.Subscribed && !s.Closed && s.Iface == i.Iface && s.Mask&i.Change != 0 && s.N < 8 {
					s.Q[s.N] = i.Change
					s.N++
				}
				return true, s
			case "end":
				if s.Subscribed {
					s.Closed = true
				}
				return true, s
			case "recv":
				o := out.(string)
				if s.N > 0 {
					if o != fmt.Sprint(uint(s.Q[0])) {
						return false, s
					}
					copy(s.Q[:], s.Q[1:])
					s.Q[7] = 0
					s.N--
					return true, s
				}
				if s.Closed {
					return o == "closed", s
				}
				return o == "empty", s
			}
			return false, s
		},
		DescribeOperation: func(in, out interface{}) string { return fmt.Sprintf("%+v -> %v", in, out) },
	}
}

// c19ParkedInNotify: the header and frames of a goroutine that is parked
// acquiring a sync.RWMutex inside (*Watcher).notify, or "".
func c19ParkedInNotify() string {
	buf := make([]byte, 4<<20)
	buf = buf[:runtime.Stack(buf, true)]
	for _, g := range strings.Split(string(buf), "\n\n") {
		if strings.Contains(g, "netstate.(*Watcher).notify") && strings.Contains(g, "sync.(*RWMutex).") && (strings.Contains(g, "[sync.RWMutex") || strings.Contains(g, "[semacquire")) {
			if len(g) > 1500 {
				g = g[:1500]
			}
			return g
		}
	}
	return ""
}

func c19Linearizability(t *testing.T, r *vlib.Run) {
	rr := r.Rand("c19", "lin")
	n := r.Pick(500, 200000)
	model := c19Model()
	for i := 0; i < n; i++ {
		id := fmt.Sprintf("lin/%d", i)
		seed := rr.Int63()
		if !r.Mine(id) {
			continue
		}
		r.Begin(id)
		vSetWatchEnd(id)
		sr := rand.New(rand.NewSource(seed))
		w := NewWatcher()
		var clock atomic.Int64
		var mu sync.Mutex
		nsub := 2 + sr.Intn(3)
		ops := make([][]porcupine.Operation, nsub) // per-subscriber own ops
		var shared []porcupine.Operation           // notify + end, part of every partition
		rec := func(dst *[]porcupine.Operation, client int, in c19In, f func() string) {
			call := clock.Add(1)
			out := f()
			ret := clock.Add(1)
			mu.Lock()
			*dst = append(*dst, porcupine.Operation{ClientId: client, Input: in, Call: call, Output: out, Return: ret})
			mu.Unlock()
		}
		ifs := []string{"eth0", "eth1"}
		type plan struct {
			iface string
			mask  Change
			recvs int
			delay int
		}
		plans := make([]plan, nsub)
		for k := range plans {
			plans[k] = plan{ifs[sr.Intn(2)], Change(1 + sr.Intn(int(LinkAny))), 4 + sr.Intn(8), sr.Intn(3)}
		}
		nnot := 6 + sr.Intn(14)
		filler := []int{0, 40, 400, 2000}[i%4]
		notes := make([]c19In, nnot)
		for k := range notes {
			notes[k] = c19In{Op: "notify", Iface: ifs[sr.Intn(2)], Change: vChanges[sr.Intn(len(vChanges))]}
		}
		var wg sync.WaitGroup
		var pan atomic.Value
		start := make(chan struct{})
		for k := 0; k < nsub; k++ {
			k := k
			wg.Add(1)
			go func() {
				defer wg.Done()
				defer func() {
					if p := recover(); p != nil {
						pan.Store(fmt.Sprint(p))
					}
				}()
				<-start
				for d := 0; d < plans[k].delay; d++ {
					runtime.Gosched()
				}
				var c <-chan Change
				rec(&ops[k], k, c19In{Op: "sub", Iface: plans[k].iface, Mask: plans[k].mask, Sub: k}, func() string {
					c = w.Subscribe(plans[k].iface, plans[k].mask)
					return ""
				})
				for j := 0; j < plans[k].recvs; j++ {
					rec(&ops[k], k, c19In{Op: "recv", Sub: k}, func() string {
						select {
						case v, ok := <-c:
							if !ok {
								return "closed"
							}
							return fmt.Sprint(uint(v))
						default:
							return "empty"
						}
					})
					if j%2 == 0 {
						runtime.Gosched()
					}
				}
			}()
		}
		wg.Add(1)
		go func() {
			defer wg.Done()
			defer func() {
				if p := recover(); p != nil {
					pan.Store(fmt.Sprint(p))
				}
			}()
			<-start
			var endCall int64
			w.watch = func(ctx context.Context, notify func(changeSet)) error {
				for _, nt := range notes {
					nt := nt
					rec(&shared, 100, nt, func() string {
						// one batch of the OS source: the interface of interest among many
						// others nobody asked about (a notification then takes long enough
						// for a Subscribe to arrive in the middle of it)
						cs := make(changeSet, 1+filler)
						for q := 0; q < filler; q++ {
							cs[fmt.Sprintf("veth%d", q)] = []Change{LinkUp}
						}
						cs[nt.Iface] = []Change{nt.Change}
						notify(cs)
						return ""
					})
				}
				endCall = clock.Add(1)
				if seed%2 == 0 {
					return vErrWatch // the OS source failed: subscribers must still be released
				}
				return nil
			}
			_ = w.Watch(context.Background())
			ret := clock.Add(1)
			mu.Lock()
			shared = append(shared, porcupine.Operation{ClientId: 100, Input: c19In{Op: "end"}, Call: endCall, Output: "", Return: ret})
			mu.Unlock()
		}()
		close(start)
		done := make(chan struct{})
		go func() { wg.Wait(); close(done) }()
		select {
		case <-done:
		case <-time.After(20 * time.Second):
			// Slow, or stuck?  Two goroutine dumps 5 s apart: the same watcher goroutine
			// parked on the watcher's lock inside notify in both, and the history still
			// incomplete, is a notification that blocks the watcher.
			d1 := c19ParkedInNotify()
			select {
			case <-done:
				r.Count("slow_histories", 1)
			case <-time.After(5 * time.Second):
			}
			d2 := c19ParkedInNotify()
			select {
			case <-done:
			default:
				if d1 != "" && d1 == d2 {
					r.Violation(id, "notify-blocked", "a notification is parked on the watcher's own lock (the same goroutine in two dumps 5 s apart) while a Subscribe waits for it: the watcher is blocked, Watch never ends and no subscriber is released", map[string]any{"seed": seed, "goroutine": d2})
					return // goroutines of this history are stuck for good
				}
				r.Inconclusive(id, "history did not complete within 25 s of real time and no goroutine is parked in notify")
				continue
			}
		}
		if p := pan.Load(); p != nil {
			r.Violation(id, "panic", fmt.Sprintf("concurrent Subscribe/notify/end-of-watch panicked: %v", p), map[string]any{"seed": seed})
			continue
		}
		total := 0
		for k := 0; k < nsub; k++ {
			h := append(append([]porcupine.Operation{}, ops[k]...), shared...)
			total += len(h)
			res, info := porcupine.CheckOperationsVerbose(model, h, 60*time.Second)
			switch res {
			case porcupine.Illegal:
				var lines []string
				for _, o := range h {
					lines = append(lines, fmt.Sprintf("[%d,%d] %+v -> %v", o.Call, o.Return, o.Input, o.Output))
				}
				_ = info
				r.Violation(id, "not-linearizable", fmt.Sprintf("subscriber %d's history has no linearization against the FIFO-of-8 specification", k), map[string]any{"seed": seed, "history": lines})
			case porcupine.Unknown:
				r.Inconclusive(id, "porcupine timed out")
			}
		}
		r.Count("operations_checked", total)
		r.Nontrivial(id)
		if r.WantSample() {
			var lines []string
			for _, o := range append(append([]porcupine.Operation{}, ops[0]...), shared...) {
				lines = append(lines, fmt.Sprintf("[%d,%d] %+v -> %v", o.Call, o.Return, o.Input, o.Output))
			}
			if len(lines) > 16 {
				lines = lines[:16]
			}
			r.Sample(map[string]any{"id": id, "subscribers": nsub, "notifies": nnot, "history_of_subscriber_0": lines})
		}
	}
}
