//go:build verif

package netstate

import (
	"context"
	"fmt"
	"os"
	"os/exec"
	"sync"
	"testing"
	"time"

	"verif.local/vlib"
)

// TestVerifC19Netns — the real rtnetlink watcher in a private network
// namespace: link flaps on a veth pair, real Subscribe/Watch.  Only sound
// oracles are used (mask intersection, interface match, closure); a flap that
// produces no event at all is inconclusive.
func TestVerifC19Netns(t *testing.T) {
	r := vlib.Start("C19", "oswatch")
	defer r.Finish()
	if os.Getenv("VERIF_IN_NETNS") != "1" {
		r.Inconclusive("oswatch", "not running inside the private network namespace")
		return
	}
	masks := []Change{LinkDown, LinkUp, LinkDown | LinkLowerLayerDown, LinkAny, LinkTesting, LinkUp | LinkDormant | LinkUnknown}
	for rep := 0; rep < r.Pick(2, 10); rep++ {
		id := fmt.Sprintf("flap/%d", rep)
		if !r.Mine(id) {
			continue
		}
		r.Begin(id)
		r.Nontrivial(id)
		w := NewWatcher()
		type sub struct {
			iface  string
			mask   Change
			c      <-chan Change
			got    []Change
			closed bool
		}
		var subs []*sub
		for _, ifc := range []string{"va", "vb", "lo", "nosuch0"} {
			for _, m := range masks {
				subs = append(subs, &sub{iface: ifc, mask: m, c: w.Subscribe(ifc, m)})
			}
		}
		ctx, cancel := context.WithCancel(context.Background())
		var werr error
		done := make(chan struct{})
		go func() { werr = w.Watch(ctx); close(done) }()
		var mu sync.Mutex
		var wg sync.WaitGroup
		for _, s := range subs {
			s := s
			wg.Add(1)
			go func() {
				defer wg.Done()
				for v := range s.c {
					mu.Lock()
					s.got = append(s.got, v)
					mu.Unlock()
				}
				mu.Lock()
				s.closed = true
				mu.Unlock()
			}()
		}
		time.Sleep(100 * time.Millisecond)
		for k := 0; k < 2+rep%3; k++ {
			_ = exec.Command("ip", "link", "set", "vb", "down").Run()
			time.Sleep(80 * time.Millisecond)
			_ = exec.Command("ip", "link", "set", "vb", "up").Run()
			time.Sleep(150 * time.Millisecond)
		}
		cancel()
		select {
		case <-done:
		case <-time.After(40 * time.Second):
			r.Violation(id, "watch-hung", "Watch did not return within 40 s of cancelation", nil)
			continue
		}
		fin := make(chan struct{})
		go func() { wg.Wait(); close(fin) }()
		select {
		case <-fin:
		case <-time.After(30 * time.Second):
			r.Violation(id, "not-closed", "a subscriber channel was not closed after Watch returned", nil)
			continue
		}
		if werr != nil {
			r.Inconclusive(id, "Watch returned "+werr.Error())
			continue
		}
		total := 0
		mu.Lock()
		for _, s := range subs {
			for _, v := range s.got {
				total++
				if v&s.mask == 0 {
					r.Violation(id, "wrong-delivery", fmt.Sprintf("subscriber (%s, mask %q) received %q", s.iface, s.mask, v), nil)
				}
			}
			if (s.iface == "lo" || s.iface == "nosuch0") && len(s.got) > 0 {
				r.Violation(id, "wrong-delivery", fmt.Sprintf("subscriber of %s received %v although only the veth pair flapped", s.iface, s.got), nil)
			}
			if s.mask == LinkTesting && len(s.got) > 0 {
				r.Violation(id, "wrong-delivery", fmt.Sprintf("a link-testing subscriber received %v", s.got), nil)
			}
		}
		// a LinkAny subscriber sees a superset of what any narrower one sees, in the same order
		for _, ifc := range []string{"va", "vb"} {
			var anyS *sub
			for _, s := range subs {
				if s.iface == ifc && s.mask == LinkAny {
					anyS = s
				}
			}
			for _, s := range subs {
				if s.iface != ifc || s == anyS || len(anyS.got) >= 8 {
					continue
				}
				var want []Change
				for _, v := range anyS.got {
					if v&s.mask != 0 {
						want = append(want, v)
					}
				}
				if fmt.Sprint(want) != fmt.Sprint(s.got) {
					r.Violation(id, "wrong-delivery", fmt.Sprintf("on %s the mask %q subscriber received %v, the LinkAny subscriber's events filtered by that mask are %v", ifc, s.mask, s.got, want), nil)
				}
			}
		}
		mu.Unlock()
		r.Count("kernel_link_events_delivered", total)
		if total == 0 {
			r.Inconclusive(id, "the link flaps produced no rtnetlink events")
		} else if r.WantSample() {
			var lines []string
			for _, s := range subs {
				if len(s.got) > 0 {
					lines = append(lines, fmt.Sprintf("%s mask=%q got=%v", s.iface, s.mask, s.got))
				}
			}
			r.Sample(map[string]any{"id": id, "deliveries": lines})
		}
	}
}
