//go:build verif

package plugin

import (
	"encoding/json"
	"fmt"
	"net"
	"net/netip"
	"os"
	"os/exec"
	"testing"
	"time"

	"github.com/mdlayher/ndp"
	"verif.local/model"
	"verif.local/vlib"
)

func vKernelAddrs(dev string) ([]model.SysIP, error) {
	out, err := exec.Command("ip", "-j", "-6", "addr", "show", "dev", dev).Output()
	if err != nil {
		return nil, err
	}
	var ifs []struct {
		AddrInfo []struct {
			Local         string `json:"local"`
			Prefixlen     int    `json:"prefixlen"`
			Temporary     bool   `json:"temporary"`
			Tentative     bool   `json:"tentative"`
			Deprecated    bool   `json:"deprecated"`
			Mngtmpaddr    bool   `json:"mngtmpaddr"`
			StablePrivacy bool   `json:"stable-privacy"`
			ValidLifeTime uint64 `json:"valid_life_time"`
		} `json:"addr_info"`
	}
	if err := json.Unmarshal(out, &ifs); err != nil || len(ifs) == 0 {
		return nil, fmt.Errorf("cannot decode ip -j output: %v", err)
	}
	var sys []model.SysIP
	for _, a := range ifs[0].AddrInfo {
		ad, err := netip.ParseAddr(a.Local)
		if err != nil {
			continue
		}
		sys = append(sys, model.SysIP{Addr: netip.PrefixFrom(ad, a.Prefixlen), Deprecated: a.Deprecated, ManageTemp: a.Mngtmpaddr, StablePrivacy: a.StablePrivacy,
			Temporary: a.Temporary, Tentative: a.Tentative, ValidForever: a.ValidLifeTime == 4294967295})
	}
	return sys, nil
}

// TestVerifPrepareNetns — the real Prepare (rtnetlink address source bound to
// an interface) called repeatedly with different interfaces, as an advertiser
// does on every re-initialisation: the wildcard expansion must always describe
// the interface of the *latest* Prepare.
func TestVerifPrepareNetns(t *testing.T) {
	prop := os.Getenv("VERIF_PROP")
	r := vlib.Start(prop, "prepare")
	defer r.Finish()
	if os.Getenv("VERIF_IN_NETNS") != "1" {
		r.Inconclusive("prepare", "not running inside the private network namespace")
		return
	}
	for _, a := range [][]string{
		{"2001:db8:a::1/64", "va"}, {"fd00:a::5/64", "va"}, {"2001:db8:a::2/64", "va"}, {"2001:db8:aa::1/64", "va", "mngtmpaddr"},
		{"2001:db8:b::1/64", "vb"}, {"fd00:b::9/64", "vb", "preferred_lft", "0"}, {"2001:db8:bb::7/64", "vb"},
	} {
		args := append([]string{"-6", "addr", "add", a[0], "dev", a[1], "nodad"}, a[2:]...)
		_ = exec.Command("ip", args...).Run()
	}
	time.Sleep(100 * time.Millisecond)
	seqs := [][]string{{"va", "vb", "va"}, {"vb", "va"}, {"lo", "va", "lo", "vb"}, {"va", "va", "vb", "vb"}}
	for si, seq := range seqs {
		id := fmt.Sprintf("prepare/%d", si)
		if !r.Mine(id) {
			continue
		}
		r.Begin(id)
		r.Nontrivial(id)
		pf := &Prefix{Auto: true, Prefix: mp("::/64"), OnLink: true, Autonomous: true, ValidLifetime: time.Hour, PreferredLifetime: time.Hour}
		rd := &RDNSS{Auto: true, Lifetime: time.Hour}
		ll := &LLA{}
		for step, dev := range seq {
			ifi, err := net.InterfaceByName(dev)
			if err != nil {
				r.Inconclusive(id, err.Error())
				break
			}
			sys, err := vKernelAddrs(dev)
			if err != nil {
				r.Inconclusive(id, err.Error())
				break
			}
			det := map[string]any{"prepare_sequence": seq, "step": step, "interface": dev, "kernel_addresses": sys}
			switch prop {
			case "C13":
				if err := pf.Prepare(ifi); err != nil {
					r.Violation(id, "prepare-error", err.Error(), det)
					break
				}
				_ = ll.Prepare(ifi)
				ra := &ndp.RouterAdvertisement{}
				if err := pf.Apply(ra); err != nil {
					r.Violation(id, "apply-error-after-prepare", fmt.Sprintf("after Prepare(%s) the wildcard prefix fails: %v", dev, err), det)
					break
				}
				var got, want []string
				for _, o := range ra.Options {
					if p, ok := o.(*ndp.PrefixInformation); ok {
						got = append(got, netip.PrefixFrom(p.Prefix, int(p.PrefixLength)).String())
					}
				}
				for _, w := range model.WildPrefixes(sys) {
					want = append(want, w.String())
				}
				if fmt.Sprint(got) != fmt.Sprint(want) {
					r.Violation(id, "stale-interface", fmt.Sprintf("after Prepare(%s) the wildcard expands to %v, that interface's addresses call for %v", dev, got, want), det)
				}
				if ll.Addr.String() != ifi.HardwareAddr.String() {
					r.Violation(id, "stale-interface", fmt.Sprintf("after Prepare(%s) the source link-layer address is %v, the interface has %v", dev, ll.Addr, ifi.HardwareAddr), det)
				}
			case "C14":
				if err := rd.Prepare(ifi); err != nil {
					r.Violation(id, "prepare-error", err.Error(), det)
					break
				}
				ra := &ndp.RouterAdvertisement{}
				err := rd.Apply(ra)
				best, ok := model.WildRDNSS(sys)
				switch {
				case !ok && err == nil:
					r.Violation(id, "unusable-server-advertised", fmt.Sprintf("after Prepare(%s): no eligible address but an option was produced", dev), det)
				case ok && err != nil:
					r.Violation(id, "apply-error-after-prepare", fmt.Sprintf("after Prepare(%s) the wildcard RDNSS fails: %v", dev, err), det)
				case ok:
					got := ra.Options[0].(*ndp.RecursiveDNSServer).Servers[0]
					if got != best {
						r.Violation(id, "stale-interface", fmt.Sprintf("after Prepare(%s) the wildcard picks %s, that interface's addresses give %s", dev, got, best), det)
					}
				}
			}
			r.Count("prepare_steps_compared", 1)
		}
		if r.WantSample() {
			r.Sample(map[string]any{"id": id, "prepare_sequence": seq})
		}
	}
}
