//go:build verif

package plugin

import (
	"errors"
	"fmt"
	"math/rand"
	"net/netip"
	"reflect"
	"sort"
	"strings"
	"testing"
	"time"

	"github.com/mdlayher/corerad/internal/system"
	"github.com/mdlayher/ndp"
	"verif.local/model"
	"verif.local/vlib"
)

var vErrSource = errors.New("verif: injected source failure")

func vIPs(in []model.SysIP) []system.IP {
	out := make([]system.IP, 0, len(in))
	for _, a := range in {
		out = append(out, system.IP{Address: a.Addr, Deprecated: a.Deprecated, ManageTemporaryAddresses: a.ManageTemp,
			StablePrivacy: a.StablePrivacy, Temporary: a.Temporary, Tentative: a.Tentative, ValidForever: a.ValidForever})
	}
	return out
}

func mp(s string) netip.Prefix { return netip.MustParsePrefix(s) }

// Address pool for C13: ULA/GUA/LL/IPv4, /48 /64 /128, every flag alone and
// combined, two hosts in one /64, deprecated (which must not exclude).
var vPool13 = []model.SysIP{
	{Addr: mp("2001:db8::1/64")},
	{Addr: mp("2001:db8::2/64"), ValidForever: true},
	{Addr: mp("2001:db8:1::1/64"), Temporary: true},
	{Addr: mp("2001:db8:2::1/64"), Tentative: true},
	{Addr: mp("2001:db8:3::1/64"), Deprecated: true},
	{Addr: mp("2001:db8:1::2/64"), Temporary: true, Tentative: true, Deprecated: true},
	{Addr: mp("fd00::1/64"), ManageTemp: true},
	{Addr: mp("fd00:2::1/48")},
	{Addr: mp("fe80::1/64")},
	{Addr: mp("2001:db8:5::1/128")},
	{Addr: mp("192.0.2.1/24")},
	{Addr: mp("10.0.0.1/24")},
	{Addr: mp("2001:db8:1::3/64"), StablePrivacy: true},
	{Addr: mp("fc00:0:0:1::9/64")},
}

// Address pool for C14: class × stability source × exclusion flag.
var vPool14 = []model.SysIP{
	{Addr: mp("fd00::5/64")},
	{Addr: mp("fd00::4/64")},
	{Addr: mp("fd00::9/64"), ValidForever: true},
	{Addr: mp("fd00::8/64"), ManageTemp: true},
	{Addr: mp("fd00::2ff:fe00:1/64")},
	{Addr: mp("fd00::1/64"), Deprecated: true, ValidForever: true},
	{Addr: mp("2001:db8::5/64")},
	{Addr: mp("2001:db8::4/64"), StablePrivacy: true},
	{Addr: mp("2001:db8::2ff:fe00:1/64")},
	{Addr: mp("2001:db8::1/64"), Temporary: true, ValidForever: true},
	{Addr: mp("fe80::5/64")},
	{Addr: mp("fe80::2ff:fe00:1/64")},
	{Addr: mp("fe80::1/64"), Tentative: true},
	{Addr: mp("192.0.2.1/24"), ValidForever: true},
	{Addr: mp("::1/128")},
	{Addr: mp("fc00::7/7"), ManageTemp: true},
}

var vPool15 = []netip.Prefix{
	mp("2001:db8::/48"), mp("2001:db8::/64"), mp("2001:db8:0:1::/64"), mp("2001:db8:1::/48"), mp("2001:db8:1:5::/64"),
	mp("fd00::/8"), mp("fd00:1::/32"), mp("fd00:2::/32"), mp("::1/128"), mp("2001:db8::/128"), mp("2001:db8:1:5::7/128"),
	mp("::/0"), mp("127.0.0.0/8"), mp("10.0.0.0/8"), mp("2001:db8::/127"), mp("3000::/4"),
}

// vSubsets enumerates all ordered selections (permutations of subsets) of
// size <= k from n items, each also with its first element duplicated at the
// end, calling fn with index lists.
func vSubsets(n, k int, fn func(idx []int)) {
	var rec func(cur []int, used []bool)
	rec = func(cur []int, used []bool) {
		fn(cur)
		if len(cur) > 0 {
			fn(append(append([]int{}, cur...), cur[0]))
		}
		if len(cur) == k {
			return
		}
		for i := 0; i < n; i++ {
			if used[i] {
				continue
			}
			used[i] = true
			rec(append(cur, i), used)
			used[i] = false
		}
	}
	rec(nil, make([]bool, n))
}

func vKey(idx []int) string {
	ss := make([]string, len(idx))
	for i, x := range idx {
		ss[i] = fmt.Sprint(x)
	}
	return strings.Join(ss, ",")
}

func vSetKey(idx []int) string {
	c := append([]int{}, idx...)
	sort.Ints(c)
	return vKey(c)
}

// TestVerifC13 — wildcard prefix ::/64.
func TestVerifC13(t *testing.T) {
	r := vlib.Start("C13", "prefix")
	defer r.Finish()

	flags := []struct{ onlink, auto bool }{{true, true}, {false, true}, {true, false}}
	check := func(id string, list []model.SysIP, fi int) {
		r.Begin(id)
		p := &Prefix{Auto: true, Prefix: mp("::/64"), OnLink: flags[fi].onlink, Autonomous: flags[fi].auto,
			ValidLifetime: 24 * time.Hour, PreferredLifetime: time.Duration(fi+1) * time.Hour}
		// as parsed configurations have it: an epoch long past (a non-deprecated
		// stanza must advertise its constants whatever the kernel says about the
		// addresses, now and after they are gone)
		p.Epoch = time.Date(2024, 1, 1, 0, 0, 0, 0, time.UTC)
		p.TimeNow = func() time.Time { return p.Epoch.Add(7 * time.Hour) }
		cur := list
		p.Addrs = func() ([]system.IP, error) { return vIPs(cur), nil }
		ra := &ndp.RouterAdvertisement{}
		var err error
		if !r.Guard(id, "panic", func() { err = p.Apply(ra) }) {
			return
		}
		if err != nil {
			r.Violation(id, "unexpected-error", "wildcard prefix expansion failed: "+err.Error(), map[string]any{"addrs": list})
			return
		}
		defer func() {
			// another generation on the same plugin with the very same addresses in
			// the very same order, only their flags have changed (duplicate address
			// detection completed; or an address became tentative again): the
			// expansion follows the flags, not a memory of the address list
			flipped := append([]model.SysIP(nil), list...)
			changed := false
			for i := range flipped {
				if flipped[i].Tentative || flipped[i].Temporary {
					flipped[i].Tentative, flipped[i].Temporary = false, false
					changed = true
				}
			}
			if !changed && len(flipped) > 0 {
				flipped[0].Tentative = true
				changed = true
			}
			if !changed {
				return
			}
			cur = flipped
			ra3 := &ndp.RouterAdvertisement{}
			if err := p.Apply(ra3); err != nil {
				r.Violation(id, "unexpected-error", "expansion after the flags changed failed: "+err.Error(), map[string]any{"addrs": flipped})
				return
			}
			want3 := model.WildPrefixes(flipped)
			ok := len(ra3.Options) == len(want3)
			for i, o := range ra3.Options {
				pi, isPI := o.(*ndp.PrefixInformation)
				if !ok || !isPI || netip.PrefixFrom(pi.Prefix, int(pi.PrefixLength)) != want3[i] {
					ok = false
				}
			}
			r.Count("flag_change_generations_compared", 1)
			if !ok {
				r.Violation(id, "wrong-prefix-set", fmt.Sprintf("after only the flags of the listed addresses changed the wildcard expanded to %v, want %v", model.FromNDP(ra3).Options, want3), map[string]any{"first_addrs": list, "addrs": flipped})
			}
		}()
		defer func() {
			// second generation on the same plugin after the kernel-deprecated
			// addresses have disappeared
			var rest []model.SysIP
			for _, a := range list {
				if !a.Deprecated {
					rest = append(rest, a)
				}
			}
			if len(rest) == len(list) {
				return
			}
			cur = rest
			_ = p.String()
			ra2 := &ndp.RouterAdvertisement{}
			if err := p.Apply(ra2); err != nil {
				r.Violation(id, "unexpected-error", "second expansion failed: "+err.Error(), map[string]any{"addrs": rest})
				return
			}
			want2 := model.WildPrefixes(rest)
			ok := len(ra2.Options) == len(want2)
			for i, o := range ra2.Options {
				pi, isPI := o.(*ndp.PrefixInformation)
				if !ok || !isPI || netip.PrefixFrom(pi.Prefix, int(pi.PrefixLength)) != want2[i] || pi.ValidLifetime != p.ValidLifetime || pi.PreferredLifetime != p.PreferredLifetime {
					ok = false
				}
			}
			r.Count("second_generations_compared", 1)
			if !ok {
				r.Violation(id, "wrong-prefix-set", fmt.Sprintf("second generation (kernel-deprecated addresses gone) gave %v, want %v with the configured lifetimes", model.FromNDP(ra2).Options, want2), map[string]any{"first_addrs": list, "addrs": rest})
			}
		}()
		want := model.WildPrefixes(list)
		var got []string
		ok := true
		for _, o := range ra.Options {
			pi, isPI := o.(*ndp.PrefixInformation)
			if !isPI {
				ok = false
				break
			}
			got = append(got, netip.PrefixFrom(pi.Prefix, int(pi.PrefixLength)).String())
			if pi.OnLink != p.OnLink || pi.AutonomousAddressConfiguration != p.Autonomous || pi.ValidLifetime != p.ValidLifetime || pi.PreferredLifetime != p.PreferredLifetime {
				ok = false
			}
		}
		ws := make([]string, len(want))
		for i, w := range want {
			ws[i] = w.String()
		}
		if !ok || !reflect.DeepEqual(ws, got) && !(len(ws) == 0 && len(got) == 0) {
			r.Violation(id, "wrong-prefix-set", fmt.Sprintf("wildcard ::/64 expanded to %v, want exactly %v (flags/lifetimes ok=%v)", got, ws, ok), map[string]any{"addrs": list})
		}
		r.Count("options_observed", len(got))
		if len(list) >= 2 {
			r.Nontrivial(id)
		}
		r.Distinct("result_sets", strings.Join(ws, " "))
		if r.WantSample() && len(ws) >= 2 && len(list) >= 3 {
			r.Sample(map[string]any{"id": id, "addrs": list, "expanded": got})
		}
	}

	k := r.Pick(4, 4)
	vSubsets(len(vPool13), k, func(idx []int) {
		id := "perm/" + vKey(idx)
		if !r.Mine("set/" + vSetKey(idx)) {
			return
		}
		list := make([]model.SysIP, len(idx))
		for i, x := range idx {
			list[i] = vPool13[x]
		}
		check(id, list, len(idx)%3)
	})

	n := r.Pick(2000, 1500000)
	rr := r.Rand("c13", "random")
	for i := 0; i < n; i++ {
		m := 1 + rr.Intn(40)
		list := make([]model.SysIP, m)
		for j := range list {
			list[j] = vRandIP(rr)
		}
		id := fmt.Sprintf("rand/%d", i)
		if r.Mine(id) {
			check(id, list, i%3)
		}
	}

	// A failing source must fail RA generation.
	if r.Mine("source-error") {
		r.Begin("source-error")
		p := &Prefix{Auto: true, Prefix: mp("::/64"), ValidLifetime: time.Hour, PreferredLifetime: time.Hour}
		p.Addrs = func() ([]system.IP, error) { return nil, vErrSource }
		ra := &ndp.RouterAdvertisement{}
		if err := p.Apply(ra); err == nil || len(ra.Options) != 0 {
			r.Violation("source-error", "source-error-swallowed", "a failure to list addresses did not fail RA generation", nil)
		}
		// A static prefix must not consult the source at all.
		q := &Prefix{Prefix: mp("2001:db8::/64"), ValidLifetime: time.Hour, PreferredLifetime: time.Hour}
		q.Addrs = func() ([]system.IP, error) { return nil, vErrSource }
		ra = &ndp.RouterAdvertisement{}
		if err := q.Apply(ra); err != nil || len(ra.Options) != 1 {
			r.Violation("source-error", "static-prefix-uses-source", "a static prefix depended on the address source", nil)
		}
	}
}

func vRandIP(rr *rand.Rand) model.SysIP {
	nets := []string{"2001:db8:", "2001:db8:1:", "fd00:", "fd00:1:", "fe80:", "2001:db8:ffff:", "fc00:9:"}
	var a model.SysIP
	if rr.Intn(12) == 0 {
		a.Addr = netip.PrefixFrom(netip.AddrFrom4([4]byte{192, 0, 2, byte(rr.Intn(255))}), 24)
	} else {
		host := []string{"1", "2", "2ff:fe00:1", "ffff", "a:b:c:d"}[rr.Intn(5)]
		s := nets[rr.Intn(len(nets))] + ":" + host
		if strings.Count(s, ":") > 7 || strings.Contains(s, ":::") {
			s = nets[rr.Intn(len(nets))] + ":1"
		}
		ad, err := netip.ParseAddr(s)
		if err != nil {
			ad = netip.MustParseAddr("2001:db8::99")
		}
		bits := []int{64, 64, 64, 64, 48, 128, 56, 7}[rr.Intn(8)]
		a.Addr = netip.PrefixFrom(ad, bits)
	}
	f := rr.Intn(64)
	if rr.Intn(2) == 0 {
		f &= 1 << uint(rr.Intn(6))
	}
	a.Deprecated, a.ManageTemp, a.StablePrivacy, a.Temporary, a.Tentative, a.ValidForever = f&1 != 0, f&2 != 0, f&4 != 0, f&8 != 0, f&16 != 0, f&32 != 0
	return a
}

// TestVerifC14 — wildcard RDNSS ::.
func TestVerifC14(t *testing.T) {
	r := vlib.Start("C14", "rdnss")
	defer r.Finish()

	statics := [][]netip.Addr{nil, {netip.MustParseAddr("2001:db8::53")}, {netip.MustParseAddr("2001:db8::53"), netip.MustParseAddr("fd00::53")},
		{netip.MustParseAddr("2001:4860:4860::8888"), netip.MustParseAddr("2606:4700:4700::1111"), netip.MustParseAddr("fd00:53::1")},
		// static servers that are also addresses of the interface (the administrator
		// listed the router's own stable addresses next to the wildcard), sorted as
		// the configuration parser leaves them
		{netip.MustParseAddr("2001:db8::4"), netip.MustParseAddr("2001:db8::2ff:fe00:1"), netip.MustParseAddr("fd00::4"), netip.MustParseAddr("fd00::5"), netip.MustParseAddr("fd00::8"), netip.MustParseAddr("fd00::9"), netip.MustParseAddr("fd00::2ff:fe00:1")},
		{netip.MustParseAddr("2001:db8::53"), netip.MustParseAddr("fd00::9"), netip.MustParseAddr("fe80::5")}}

	check := func(id string, list []model.SysIP, si int) {
		r.Begin(id)
		// the configured slice may carry spare capacity (append growth while
		// parsing): RA generation must not write into it
		cfgServers := make([]netip.Addr, len(statics[si]), len(statics[si])+len(id)%4)
		copy(cfgServers, statics[si])
		p := &RDNSS{Auto: true, Lifetime: 30 * time.Minute, Servers: cfgServers}
		// An earlier generation on the same plugin saw the same addresses in the
		// same order with other flags (the address that will be picked was still
		// deprecated; or nothing was eligible and one address has since completed
		// duplicate address detection): the pick follows the flags as they are now.
		warm := append([]model.SysIP(nil), list...)
		if b, ok := model.WildRDNSS(list); ok {
			for i := range warm {
				if warm[i].Addr.Addr() == b {
					warm[i].Deprecated = true
				}
			}
		} else {
			for i := range warm {
				warm[i].Deprecated, warm[i].Temporary, warm[i].Tentative = false, false, false
			}
		}
		cur := warm
		p.Addrs = func() ([]system.IP, error) { return vIPs(cur), nil }
		_ = p.Apply(&ndp.RouterAdvertisement{})
		cur = list
		ra := &ndp.RouterAdvertisement{}
		var err error
		if !r.Guard(id, "panic", func() {
			// the RA is built repeatedly; judge the last build
			for k := 0; k < 3; k++ {
				ra = &ndp.RouterAdvertisement{}
				err = p.Apply(ra)
			}
		}) {
			return
		}
		best, ok := model.WildRDNSS(list)
		if !ok {
			r.Count("no_eligible", 1)
			if err == nil {
				r.Violation(id, "unusable-server-advertised", fmt.Sprintf("no eligible address but an option was produced: %v", model.FromNDP(ra).Options), map[string]any{"addrs": list})
			}
			return
		}
		if err != nil {
			r.Violation(id, "unexpected-error", "wildcard RDNSS failed although an eligible address exists: "+err.Error(), map[string]any{"addrs": list, "want": best.String()})
			return
		}
		if len(ra.Options) != 1 {
			r.Violation(id, "option-count", fmt.Sprintf("%d options produced", len(ra.Options)), nil)
			return
		}
		o, isR := ra.Options[0].(*ndp.RecursiveDNSServer)
		if !isR || len(o.Servers) == 0 {
			r.Violation(id, "option-type", "no RDNSS option produced", nil)
			return
		}
		if o.Servers[0] != best {
			r.Violation(id, "wrong-pick", fmt.Sprintf("picked %s, the documented ranking gives %s", o.Servers[0], best), map[string]any{"addrs": list})
			return
		}
		if o.Lifetime != p.Lifetime {
			r.Violation(id, "lifetime", "lifetime differs from the stanza", nil)
		}
		rest := o.Servers[1:]
		// the static servers follow, as configured; when the picked address is also
		// configured statically, listing it once (first) or again among the static
		// ones are both "the static servers, sorted and without duplicates"
		var without []netip.Addr
		for _, a := range statics[si] {
			if a != best {
				without = append(without, a)
			} else {
				r.Count("picked_address_also_static", 1)
			}
		}
		same := func(a, b []netip.Addr) bool {
			return len(a) == 0 && len(b) == 0 || reflect.DeepEqual(append([]netip.Addr(nil), a...), append([]netip.Addr(nil), b...))
		}
		if !same(rest, statics[si]) && !same(rest, without) {
			r.Violation(id, "static-servers", fmt.Sprintf("static servers %v, want %v", rest, statics[si]), map[string]any{"addrs": list})
		}
		if !reflect.DeepEqual(p.Servers, statics[si]) && !(len(p.Servers) == 0 && len(statics[si]) == 0) {
			r.Violation(id, "config-mutated", "the configured static servers were altered by RA generation", nil)
		}
		if len(list) >= 2 {
			r.Nontrivial(id)
		}
		r.Distinct("picked", best.String())
		if r.WantSample() && len(list) >= 3 {
			r.Sample(map[string]any{"id": id, "addrs": list, "picked": best.String()})
		}
	}

	k := r.Pick(4, 4)
	vSubsets(len(vPool14), k, func(idx []int) {
		if !r.Mine("set/" + vSetKey(idx)) {
			return
		}
		list := make([]model.SysIP, len(idx))
		for i, x := range idx {
			list[i] = vPool14[x]
		}
		check("perm/"+vKey(idx), list, len(idx)%len(statics))
	})
	n := r.Pick(2000, 1500000)
	rr := r.Rand("c14", "random")
	for i := 0; i < n; i++ {
		m := 1 + rr.Intn(40)
		list := make([]model.SysIP, m)
		for j := range list {
			list[j] = vRandIP(rr)
		}
		id := fmt.Sprintf("rand/%d", i)
		if r.Mine(id) {
			check(id, list, i%len(statics))
		}
	}
	if r.Mine("source-error") {
		r.Begin("source-error")
		p := &RDNSS{Auto: true, Lifetime: time.Minute}
		p.Addrs = func() ([]system.IP, error) { return nil, vErrSource }
		ra := &ndp.RouterAdvertisement{}
		if err := p.Apply(ra); err == nil || len(ra.Options) != 0 {
			r.Violation("source-error", "source-error-swallowed", "a failure to list addresses did not fail RA generation", nil)
		}
	}
}

// TestVerifC15 — wildcard route ::/0.
func TestVerifC15(t *testing.T) {
	r := vlib.Start("C15", "route")
	defer r.Finish()

	prefs := []ndp.Preference{ndp.Medium, ndp.High, ndp.Low}
	check := func(id string, list []netip.Prefix, pi int) {
		r.Begin(id)
		p := &Route{Auto: true, Prefix: mp("::/0"), Preference: prefs[pi], Lifetime: time.Duration(pi+1) * time.Hour}
		p.Routes = func() ([]system.Route, error) {
			out := make([]system.Route, len(list))
			// The same destination may be listed once per loopback interface and with
			// different kernel preferences: those fields vary independently of the prefix.
			h := vlib.Hash64(id)
			for i, x := range list {
				v := (h >> (uint(i) % 60)) + uint64(i)*2654435761
				out[i] = system.Route{Prefix: x, Index: []int{1, 1, 7}[v%3], Preference: []ndp.Preference{ndp.Medium, ndp.Low, ndp.High, ndp.Medium}[(v/3)%4]}
			}
			return out, nil
		}
		// One stanza in three is deprecated and read against a clock that advances
		// with every reading: the routes of one RA still share one lifetime.
		advancing := vlib.Hash64(id)%3 == 0
		reads := 0
		if advancing {
			p.Deprecated = true
			p.Epoch = time.Date(2024, 1, 1, 0, 0, 0, 0, time.UTC)
			p.TimeNow = func() time.Time { reads++; return p.Epoch.Add(10*time.Second + time.Duration(reads)*time.Second) }
		}
		ra := &ndp.RouterAdvertisement{}
		var err error
		if !r.Guard(id, "panic", func() { err = p.Apply(ra) }) {
			return
		}
		if err != nil {
			r.Violation(id, "unexpected-error", "wildcard route expansion failed: "+err.Error(), map[string]any{"routes": list})
			return
		}
		if advancing {
			var first time.Duration = -1
			for _, o := range ra.Options {
				if ri, ok := o.(*ndp.RouteInformation); ok {
					if first < 0 {
						first = ri.RouteLifetime
					}
					lo, hi := p.Lifetime-10*time.Second-time.Duration(reads)*time.Second, p.Lifetime-11*time.Second
					if ri.RouteLifetime != first || ri.RouteLifetime < lo || ri.RouteLifetime > hi {
						r.Violation(id, "route-lifetimes-differ", fmt.Sprintf("routes of one deprecated stanza in one RA carry lifetimes %v and %v (clock advancing 1 s per reading, %d readings)", first, ri.RouteLifetime, reads), map[string]any{"routes": list})
						return
					}
					ri.RouteLifetime = p.Lifetime // the comparison below is about the set
				}
			}
			r.Count("deprecated_wildcard_generations", 1)
		}
		want := model.WildRoutes(list)
		ws := make([]string, len(want))
		for i, w := range want {
			ws[i] = w.String()
		}
		var got []string
		var gp []netip.Prefix
		ok := true
		for _, o := range ra.Options {
			ri, isRI := o.(*ndp.RouteInformation)
			if !isRI {
				ok = false
				break
			}
			px := netip.PrefixFrom(ri.Prefix, int(ri.PrefixLength))
			got = append(got, px.String())
			gp = append(gp, px)
			if ri.Preference != p.Preference || ri.RouteLifetime != p.Lifetime {
				ok = false
			}
		}
		if !ok || !reflect.DeepEqual(ws, got) && !(len(ws) == 0 && len(got) == 0) {
			r.Violation(id, "wrong-route-set", fmt.Sprintf("wildcard ::/0 expanded to %v, want exactly %v (preference/lifetime ok=%v)", got, ws, ok), map[string]any{"routes": list})
		}
		for i := range gp {
			for j := range gp {
				if i != j && gp[i].Overlaps(gp[j]) {
					r.Violation(id, "overlapping-result", fmt.Sprintf("result contains overlapping or duplicate routes %s and %s", gp[i], gp[j]), map[string]any{"routes": list})
				}
			}
		}
		if len(list) >= 2 {
			r.Nontrivial(id)
		}
		r.Distinct("result_sets", strings.Join(ws, " "))
		if r.WantSample() && len(list) >= 3 && len(ws) >= 1 && len(ws) < len(list) {
			r.Sample(map[string]any{"id": id, "routes": list, "expanded": got})
		}
	}
	k := r.Pick(4, 4)
	vSubsets(len(vPool15), k, func(idx []int) {
		if !r.Mine("set/" + vSetKey(idx)) {
			return
		}
		list := make([]netip.Prefix, len(idx))
		for i, x := range idx {
			list[i] = vPool15[x]
		}
		check("perm/"+vKey(idx), list, len(idx)%3)
	})
	n := r.Pick(2000, 1500000)
	rr := r.Rand("c15", "random")
	for i := 0; i < n; i++ {
		m := 1 + rr.Intn(30)
		list := make([]netip.Prefix, m)
		for j := range list {
			if rr.Intn(3) == 0 {
				list[j] = vPool15[rr.Intn(len(vPool15))]
				continue
			}
			var a [16]byte
			a[0], a[1], a[2], a[3] = 0x20, 0x01, 0x0d, 0xb8
			a[4], a[5], a[6], a[7] = byte(rr.Intn(2)), byte(rr.Intn(2)), byte(rr.Intn(2)), byte(rr.Intn(3))
			bits := []int{32, 40, 48, 56, 64, 64, 128, 33}[rr.Intn(8)]
			list[j] = netip.PrefixFrom(netip.AddrFrom16(a), bits).Masked()
		}
		id := fmt.Sprintf("rand/%d", i)
		if r.Mine(id) {
			check(id, list, i%3)
		}
	}
	if r.Mine("source-error") {
		r.Begin("source-error")
		p := &Route{Auto: true, Prefix: mp("::/0"), Lifetime: time.Hour}
		p.Routes = func() ([]system.Route, error) { return nil, vErrSource }
		ra := &ndp.RouterAdvertisement{}
		if err := p.Apply(ra); err == nil || len(ra.Options) != 0 {
			r.Violation("source-error", "source-error-swallowed", "a failure to dump routes did not fail RA generation", nil)
		}
	}
}
