//go:build verif

package plugin

import (
	"bytes"
	"fmt"
	"math/rand"
	"net/netip"
	"os"
	"runtime"
	"strconv"
	"sync"
	"sync/atomic"
	"testing"
	"time"

	"github.com/mdlayher/corerad/internal/system"
	"github.com/mdlayher/ndp"
	"verif.local/model"
	"verif.local/vlib"
)

// vGoid: the id of the calling goroutine (monitor bookkeeping only: which dump
// did *this* caller's expansion receive).
func vGoid() int64 {
	var b [64]byte
	s := b[:runtime.Stack(b[:], false)]
	s = bytes.TrimPrefix(s, []byte("goroutine "))
	if i := bytes.IndexByte(s, ' '); i > 0 {
		n, _ := strconv.ParseInt(string(s[:i]), 10, 64)
		return n
	}
	return -1
}

// TestVerifWildConcurrent — one wildcard plugin instance is shared by the
// advertiser, the metrics collector, the debug API and the logger, which all
// expand it from their own goroutines.  Several goroutines apply (and print) one
// instance while the operating system's answer changes from call to call; the
// source hook and the clock hook — the two points at which an expansion calls
// out — yield the processor.  Every result must be exactly what a fresh instance
// gives, sequentially, for the very dump that call received; the race detector
// watches the rest.
func TestVerifWildConcurrent(t *testing.T) {
	prop := os.Getenv("VERIF_PROP")
	if prop == "" {
		prop = "C15"
	}
	r := vlib.Start(prop, "concurrent")
	defer r.Finish()
	rr := r.Rand(prop, "concurrent")
	n := r.Pick(48, 600)
	epoch := time.Date(2024, 1, 1, 0, 0, 0, 0, time.UTC)
	fixedNow := func() time.Time { runtime.Gosched(); return epoch.Add(90 * time.Second) }

	for i := 0; i < n; i++ {
		id := fmt.Sprintf("concurrent/%d", i)
		seed := rr.Int63()
		if !r.Mine(id) {
			continue
		}
		r.Begin(id)
		r.Nontrivial(id)
		sr := rand.New(rand.NewSource(seed))
		k := 2 + sr.Intn(3)
		deprecated := i%2 == 0

		// the dumps
		var ipDumps [][]model.SysIP
		var rtDumps [][]netip.Prefix
		for d := 0; d < k; d++ {
			switch prop {
			case "C15":
				m := sr.Intn(7)
				l := make([]netip.Prefix, m)
				for j := range l {
					l[j] = vPool15[sr.Intn(len(vPool15))]
				}
				rtDumps = append(rtDumps, l)
			case "C14":
				m := sr.Intn(6)
				l := make([]model.SysIP, m)
				for j := range l {
					l[j] = vPool14[sr.Intn(len(vPool14))]
				}
				ipDumps = append(ipDumps, l)
			default:
				m := sr.Intn(7)
				l := make([]model.SysIP, m)
				for j := range l {
					l[j] = vPool13[sr.Intn(len(vPool13))]
				}
				ipDumps = append(ipDumps, l)
			}
		}
		// build makes an instance whose source is pick() (an index into the dumps)
		type inst struct {
			apply func(*ndp.RouterAdvertisement) error
			str   func() string
		}
		build := func(pick func() int) inst {
			switch prop {
			case "C15":
				p := &Route{Auto: true, Prefix: mp("::/0"), Preference: ndp.High, Lifetime: time.Hour, Deprecated: deprecated, Epoch: epoch, TimeNow: fixedNow}
				p.Routes = func() ([]system.Route, error) {
					l := rtDumps[pick()]
					out := make([]system.Route, len(l))
					for j, x := range l {
						out[j] = system.Route{Prefix: x, Index: 1 + j%2}
					}
					runtime.Gosched()
					return out, nil
				}
				return inst{p.Apply, p.String}
			case "C14":
				p := &RDNSS{Auto: true, Lifetime: time.Hour}
				p.Addrs = func() ([]system.IP, error) {
					out := vIPs(ipDumps[pick()])
					runtime.Gosched()
					return out, nil
				}
				return inst{p.Apply, p.String}
			default:
				p := &Prefix{Auto: true, Prefix: mp("::/64"), OnLink: true, Autonomous: true, ValidLifetime: 2 * time.Hour, PreferredLifetime: time.Hour, Deprecated: deprecated, Epoch: epoch, TimeNow: fixedNow}
				p.Addrs = func() ([]system.IP, error) {
					out := vIPs(ipDumps[pick()])
					runtime.Gosched()
					return out, nil
				}
				return inst{p.Apply, p.String}
			}
		}
		canon := func(ra *ndp.RouterAdvertisement, err error) string {
			if err != nil {
				return "error: " + err.Error()
			}
			return fmt.Sprint(model.FromNDP(ra).Options)
		}
		// sequential reference: a fresh instance per dump
		want := make([]string, k)
		for d := 0; d < k; d++ {
			d := d
			in := build(func() int { return d })
			ra := &ndp.RouterAdvertisement{}
			var err error
			if !r.Guard(id, "panic", func() { err = in.apply(ra) }) {
				continue
			}
			want[d] = canon(ra, err)
			r.Distinct("sequential_results", want[d])
		}
		// the shared instance
		var ctr atomic.Int64
		var mine sync.Map // goroutine id -> index of the dump its last source call got
		shared := build(func() int {
			d := int(ctr.Add(1)) % k
			mine.Store(vGoid(), d)
			return d
		})
		const G, iters = 4, 150
		var wg sync.WaitGroup
		var mu sync.Mutex
		var viol string
		var det map[string]any
		var applies atomic.Int64
		for g := 0; g < G; g++ {
			wg.Add(1)
			go func(g int) {
				defer wg.Done()
				defer func() {
					if p := recover(); p != nil {
						mu.Lock()
						if viol == "" {
							viol = fmt.Sprintf("panic in a concurrent expansion: %v", p)
						}
						mu.Unlock()
					}
				}()
				me := vGoid()
				for it := 0; it < iters; it++ {
					if g == G-1 && it%3 == 0 {
						_ = shared.str()
						continue
					}
					ra := &ndp.RouterAdvertisement{}
					err := shared.apply(ra)
					applies.Add(1)
					dv, ok := mine.Load(me)
					if !ok {
						continue
					}
					d := dv.(int)
					if got := canon(ra, err); got != want[d] {
						mu.Lock()
						if viol == "" {
							viol = fmt.Sprintf("goroutine %d, iteration %d: the expansion of dump %d gave %s, a fresh instance gives %s for that dump", g, it, d, got, want[d])
							det = map[string]any{"seed": seed, "dump_index": d, "dumps": k, "ip_dumps": ipDumps, "route_dumps": fmt.Sprint(rtDumps)}
						}
						mu.Unlock()
						return
					}
				}
			}(g)
		}
		wg.Wait()
		r.Count("concurrent_expansions_compared", int(applies.Load()))
		if viol != "" {
			r.Violation(id, "concurrent-expansion-differs", viol, det)
		}
	}
}
