//go:build verif

package plugin

import (
	"fmt"
	"net"
	"sort"
	"testing"
	"testing/synctest"
	"time"

	"github.com/mdlayher/corerad/internal/system"
	"github.com/mdlayher/ndp"
	"verif.local/model"
	"verif.local/vlib"
)

// TestVerifC16 — deprecated prefixes and routes count down to a fixed deadline.
func TestVerifC16(t *testing.T) {
	r := vlib.Start("C16", "countdown")
	defer r.Finish()

	epochs := []time.Time{
		time.Date(2024, 5, 6, 7, 8, 9, 0, time.UTC),
		time.Date(2024, 5, 6, 7, 8, 9, 999999999, time.UTC),
		time.Unix(1, 0).UTC(),
		time.Date(2038, 1, 19, 3, 14, 7, 0, time.UTC),
		time.Date(2024, 12, 31, 23, 59, 59, 500000000, time.FixedZone("x", 3600)),
	}
	lts := []time.Duration{1, time.Second, 1500 * time.Millisecond, time.Minute, 4 * time.Hour, 24 * time.Hour, 30 * 24 * time.Hour, ndp.Infinity - 2*time.Second, ndp.Infinity - time.Second}

	rr := r.Rand("c16")
	n := r.Pick(2000, 2000000)
	for i := 0; i < n; i++ {
		id := fmt.Sprintf("tuple/%d", i)
		epoch := epochs[rr.Intn(len(epochs))]
		valid := lts[rr.Intn(len(lts))]
		pref := lts[rr.Intn(len(lts))]
		if pref > valid {
			valid, pref = pref, valid
		}
		if rr.Intn(4) == 0 {
			valid = time.Duration(1 + rr.Int63n(int64(48*time.Hour)))
			pref = time.Duration(1 + rr.Int63n(int64(valid)))
		}
		route := lts[rr.Intn(len(lts))]
		deprecated := rr.Intn(5) != 0
		// Clock readings: just before, at and after each deadline, before the
		// epoch, far after, plus random ones; sorted = non-decreasing.
		var offs []time.Duration
		for _, d := range []time.Duration{valid, pref, route} {
			offs = append(offs, d-time.Nanosecond, d, d+time.Nanosecond)
		}
		offs = append(offs, -time.Hour, -time.Nanosecond, 0, time.Nanosecond, valid/2, 200*365*24*time.Hour)
		for k := 0; k < 3; k++ {
			offs = append(offs, time.Duration(rr.Int63n(int64(valid)+int64(time.Hour))))
		}
		sort.Slice(offs, func(a, b int) bool { return offs[a] < offs[b] })
		if rr.Intn(3) == 0 {
			offs = append(offs[:3], append([]time.Duration{offs[2], offs[2]}, offs[3:]...)...) // repeated reading
		}
		if !r.Mine(id) {
			continue
		}
		r.Begin(id)
		var now time.Time
		// Half of the tuples use a clock that advances on every reading (as the
		// real one does): the lifetimes of one RA must then lie between the
		// values for the first and the last reading taken while it was built,
		// and preferred must still not exceed valid.
		step := []time.Duration{0, 0, time.Nanosecond, 2 * time.Millisecond, 700 * time.Millisecond}[rr.Intn(5)]
		var reads []time.Time
		clock := func() time.Time {
			t := now.Add(time.Duration(len(reads)) * step)
			reads = append(reads, t)
			return t
		}
		// the flags of the option vary (both off included): lifetimes count down whatever they are
		fl := (i / 3) % 4
		r.Distinct("prefix_flag_combinations", fmt.Sprint(fl))
		p := &Prefix{Prefix: mp("2001:db8::/64"), OnLink: fl&1 == 0, Autonomous: fl&2 == 0, ValidLifetime: valid, PreferredLifetime: pref, Deprecated: deprecated, Epoch: epoch, TimeNow: clock}
		rt := &Route{Prefix: mp("2001:db8:1::/48"), Preference: ndp.High, Lifetime: route, Deprecated: deprecated, Epoch: epoch, TimeNow: clock}
		if i%4 == 1 {
			// the same stanzas as wildcards (::/64, ::/0) that expand to one network
			// and one route: a deprecated wildcard counts down like a static one
			p.Auto, p.Prefix = true, mp("::/64")
			p.Addrs = func() ([]system.IP, error) { return []system.IP{{Address: mp("2001:db8::1/64")}}, nil }
			rt.Auto, rt.Prefix = true, mp("::/0")
			rt.Routes = func() ([]system.Route, error) { return []system.Route{{Prefix: mp("2001:db8:1::/48"), Index: 1}}, nil }
			r.Count("wildcard_tuples", 1)
		}
		var lastV, lastP, lastR time.Duration = -1, -1, -1
		sawZero, sawPos := false, false
		for _, off := range offs {
			if step > 0 && len(reads) > 0 {
				// keep the clock non-decreasing across RAs
				if last := reads[len(reads)-1]; epoch.Add(off).Before(last) {
					off = last.Sub(epoch)
				}
			}
			now = epoch.Add(off)
			reads = reads[:0]
			ra := &ndp.RouterAdvertisement{}
			ok := r.Guard(id, "panic", func() {
				if err := p.Apply(ra); err != nil {
					panic(err)
				}
				if err := rt.Apply(ra); err != nil {
					panic(err)
				}
			})
			if !ok {
				break
			}
			r.Count("clock_readings", 1)
			if len(ra.Options) != 2 {
				r.Violation(id, "option-count", fmt.Sprintf("%d options", len(ra.Options)), nil)
				break
			}
			pi := ra.Options[0].(*ndp.PrefixInformation)
			ri := ra.Options[1].(*ndp.RouteInformation)
			det := map[string]any{"epoch": epoch, "valid": valid.String(), "preferred": pref.String(), "route": route.String(), "deprecated": deprecated,
				"now_minus_epoch": off.String(), "got_valid": pi.ValidLifetime.String(), "got_preferred": pi.PreferredLifetime.String(), "got_route": ri.RouteLifetime.String()}
			if !deprecated {
				if pi.ValidLifetime != valid || pi.PreferredLifetime != pref || ri.RouteLifetime != route {
					r.Violation(id, "constant-changed", "a non-deprecated prefix/route did not advertise the configured constants", det)
					break
				}
				continue
			}
			wv, wp, wr := time.Duration(model.Remaining(epoch, int64(valid), now)), time.Duration(model.Remaining(epoch, int64(pref), now)), time.Duration(model.Remaining(epoch, int64(route), now))
			if step > 0 {
				if len(reads) == 0 {
					r.Violation(id, "clock-not-read", "a deprecated prefix/route was advertised without reading the clock", det)
					break
				}
				last := reads[len(reads)-1]
				within := func(got time.Duration, l time.Duration) bool {
					return got <= time.Duration(model.Remaining(epoch, int64(l), now)) && got >= time.Duration(model.Remaining(epoch, int64(l), last))
				}
				if !within(pi.ValidLifetime, valid) || !within(pi.PreferredLifetime, pref) || !within(ri.RouteLifetime, route) {
					det["clock_readings_during_this_ra"] = len(reads)
					r.Violation(id, "wrong-remaining", "advertised lifetime is not the time remaining at any clock reading taken while the RA was built", det)
					break
				}
				r.Count("advancing_clock_ras", 1)
			} else if pi.ValidLifetime != wv || pi.PreferredLifetime != wp || ri.RouteLifetime != wr {
				det["want"] = fmt.Sprintf("valid=%s preferred=%s route=%s", wv, wp, wr)
				r.Violation(id, "wrong-remaining", "advertised lifetime differs from the time remaining until start + configured lifetime", det)
				break
			}
			if pi.ValidLifetime < 0 || pi.PreferredLifetime < 0 || ri.RouteLifetime < 0 {
				r.Violation(id, "negative", "negative lifetime advertised", det)
				break
			}
			if pi.PreferredLifetime > pi.ValidLifetime {
				r.Violation(id, "preferred-exceeds-valid", "preferred lifetime exceeds valid lifetime", det)
				break
			}
			if lastV >= 0 && (pi.ValidLifetime > lastV || pi.PreferredLifetime > lastP || ri.RouteLifetime > lastR) {
				r.Violation(id, "increased", "a lifetime increased from one RA to a later one", det)
				break
			}
			lastV, lastP, lastR = pi.ValidLifetime, pi.PreferredLifetime, ri.RouteLifetime
			if pi.ValidLifetime == 0 {
				sawZero = true
			} else {
				sawPos = true
			}
		}
		if deprecated && sawZero && sawPos {
			r.Nontrivial(fmt.Sprintf("%v|%v|%v|%v", epoch.UnixNano(), valid, pref, route))
		}
		if r.WantSample() && deprecated {
			r.Sample(map[string]any{"id": id, "epoch": epoch, "valid": valid.String(), "preferred": pref.String(), "route": route.String(), "clock_offsets": fmt.Sprint(offs)})
		}
	}
}

// TestVerifC16Prepare — the countdown as the daemon runs it: the clock is the one
// that Prepare installs, and Prepare runs again on every (re)initialisation of
// the interface, possibly long after the epoch.  Virtual time (a synctest bubble
// fakes time.Now), so the expected values are exact.
func TestVerifC16Prepare(t *testing.T) {
	r := vlib.Start("C16", "prepare")
	defer r.Finish()
	ifi := &net.Interface{Index: 1, Name: "lo"}
	lts := []time.Duration{30 * time.Second, 90 * time.Second, 2 * time.Hour}
	for li, L := range lts {
		first := []time.Duration{0, time.Millisecond, 20 * time.Second, L - time.Nanosecond, L, L + time.Second}
		later := []time.Duration{0, 300 * time.Millisecond, 10 * time.Second, L / 2, L}
		for fi, e1 := range first {
			for gi, e2 := range later {
				for _, e3 := range []time.Duration{0, 7 * time.Second} {
					id := fmt.Sprintf("prepare/%d/%d/%d/%v", li, fi, gi, e3)
					if !r.Mine(id) {
						continue
					}
					r.Begin(id)
					r.Nontrivial(id)
					var viol string
					synctest.Test(t, func(t *testing.T) {
						epoch := time.Now()
						pf := &Prefix{Prefix: mp("2001:db8:dead::/64"), OnLink: true, Autonomous: true, ValidLifetime: L, PreferredLifetime: L / 2, Deprecated: true, Epoch: epoch}
						rt := &Route{Prefix: mp("2001:db8:beef::/48"), Lifetime: L, Deprecated: true, Epoch: epoch}
						rem := func(l time.Duration) time.Duration {
							if d := l - time.Since(epoch); d > 0 {
								return d
							}
							return 0
						}
						prevV, prevR := time.Duration(1<<62), time.Duration(1<<62)
						look := func(when string) {
							ra := &ndp.RouterAdvertisement{}
							if err := pf.Apply(ra); err != nil {
								viol = when + ": prefix: " + err.Error()
								return
							}
							if err := rt.Apply(ra); err != nil {
								viol = when + ": route: " + err.Error()
								return
							}
							pi := ra.Options[0].(*ndp.PrefixInformation)
							ri := ra.Options[1].(*ndp.RouteInformation)
							r.Count("prepared_generations_compared", 1)
							if pi.ValidLifetime != rem(L) || pi.PreferredLifetime != rem(L/2) || ri.RouteLifetime != rem(L) {
								viol = fmt.Sprintf("%s, %v after the start: prefix valid/preferred %v/%v, route %v; the time remaining until start + configured lifetime is %v/%v, %v",
									when, time.Since(epoch), pi.ValidLifetime, pi.PreferredLifetime, ri.RouteLifetime, rem(L), rem(L/2), rem(L))
								return
							}
							if pi.ValidLifetime > prevV || ri.RouteLifetime > prevR {
								viol = fmt.Sprintf("%s: advertised lifetime increased from %v to %v", when, prevV, pi.ValidLifetime)
							}
							prevV, prevR = pi.ValidLifetime, ri.RouteLifetime
						}
						prep := func() {
							if err := pf.Prepare(ifi); err != nil {
								viol = "Prepare: " + err.Error()
							}
							if err := rt.Prepare(ifi); err != nil {
								viol = "Prepare: " + err.Error()
							}
						}
						time.Sleep(e1) // the interface comes up e1 after the daemon started
						prep()
						look("after the first Prepare")
						if viol != "" {
							return
						}
						time.Sleep(e3)
						look("later, same connection")
						if viol != "" {
							return
						}
						time.Sleep(e2) // link flap: the interface is prepared again
						prep()
						look("after the interface was prepared again")
					})
					if viol != "" {
						r.Violation(id, "countdown-restarted", viol, map[string]any{"lifetime": L.String(), "first_prepare_after": e1.String(), "second_prepare_after": (e1 + e3 + e2).String()})
					}
				}
			}
		}
	}
}
