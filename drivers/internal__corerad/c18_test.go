//go:build verif

package corerad

import (
	"fmt"
	"math/rand"
	"net/netip"
	"os"
	"reflect"
	"sort"
	"strings"
	"sync/atomic"
	"testing"
	"time"
	"unsafe"

	"github.com/mdlayher/corerad/internal/config"
	"github.com/mdlayher/ndp"
	"verif.local/model"
	"verif.local/vfake"
	"verif.local/vlib"
)

var vMonFamilies = []string{monReceived, monFlagManaged, monFlagOther, monDefaultRoute, monPrefixAutonomous, monPrefixOnLink, monPrefixPreferred, monPrefixValid, msgInvalid}

func vMonRA(rr *rand.Rand) *ndp.RouterAdvertisement {
	lts := []time.Duration{0, time.Second, 1800 * time.Second, 65535 * time.Second}
	plts := []time.Duration{0, time.Second, 4 * time.Hour, 24 * time.Hour, ndp.Infinity}
	ra := &ndp.RouterAdvertisement{CurrentHopLimit: uint8(rr.Intn(256)), ManagedConfiguration: rr.Intn(2) == 0, OtherConfiguration: rr.Intn(2) == 0,
		RouterLifetime: lts[rr.Intn(len(lts))], ReachableTime: time.Duration(rr.Intn(3)) * time.Second, RetransmitTimer: time.Duration(rr.Intn(3)) * time.Millisecond * 500,
		RouterSelectionPreference: []ndp.Preference{ndp.Medium, ndp.High, ndp.Low}[rr.Intn(3)]}
	nets := []string{"2001:db8::", "2001:db8:1::", "fd00::", "2001:db8::1", "::"}
	for i, n := 0, rr.Intn(5); i < n; i++ {
		ra.Options = append(ra.Options, &ndp.PrefixInformation{PrefixLength: []uint8{64, 64, 48, 0, 128, 56}[rr.Intn(6)], OnLink: rr.Intn(2) == 0, AutonomousAddressConfiguration: rr.Intn(2) == 0,
			ValidLifetime: plts[rr.Intn(len(plts))], PreferredLifetime: plts[rr.Intn(len(plts))], Prefix: netip.MustParseAddr(nets[rr.Intn(len(nets))])})
	}
	if rr.Intn(8) == 0 {
		// what the decoder hands over for a prefix option whose length octet on the
		// wire exceeds 128: no address, the length as received.  It has no CIDR
		// form; whatever label it gets, the monitor goes on
		ra.Options = append(ra.Options, &ndp.PrefixInformation{PrefixLength: uint8(129 + rr.Intn(127)), OnLink: true,
			ValidLifetime: plts[rr.Intn(len(plts))], PreferredLifetime: plts[rr.Intn(len(plts))]})
	}
	if rr.Intn(2) == 0 {
		ra.Options = append(ra.Options, &ndp.RouteInformation{PrefixLength: 48, RouteLifetime: time.Hour, Prefix: netip.MustParseAddr("2001:db8:ffff::")})
	}
	if rr.Intn(3) == 0 {
		ra.Options = append(ra.Options, &ndp.RawOption{Type: 222, Length: 1, Value: []byte{1, 2, 3, 4, 5, 6}})
	}
	if rr.Intn(3) == 0 {
		ra.Options = append(ra.Options, ndp.NewMTU(1500), &ndp.RecursiveDNSServer{Lifetime: time.Hour, Servers: []netip.Addr{netip.MustParseAddr("2001:db8::53")}})
	}
	rr.Shuffle(len(ra.Options), func(i, j int) { ra.Options[i], ra.Options[j] = ra.Options[j], ra.Options[i] })
	return ra
}

// TestVerifC18 — monitor metrics describe every received message exactly
// (with VERIF_PROP=C09: invalid messages never disturb a monitor).
func TestVerifC18(t *testing.T) {
	prop := os.Getenv("VERIF_PROP")
	if prop == "" {
		prop = "C18"
	}
	r := vlib.Start(prop, vPart("mon"))
	defer r.Finish()
	rr := r.Rand("c18", prop, r.Part)
	n := r.Pick(500, 300000)
	if r.Part == "race" {
		n = r.Pick(100, 4000)
	}
	invalidRate := 0
	if prop == "C09" {
		invalidRate = 2
	}
	senders := []string{"fe80::1", "fe80::2%veth0", "fe80::3%eth7", "2001:db8::99", "fe80::1%veth0"}
	steps := []time.Duration{0, 0, time.Nanosecond, time.Millisecond, 999 * time.Millisecond, time.Second, time.Hour, 24 * time.Hour, 400 * 24 * time.Hour}
	for i := 0; i < n; i++ {
		id := fmt.Sprintf("seq/%d", i)
		seed := rr.Int63()
		if !r.Mine(id) {
			continue
		}
		r.Begin(id)
		sr := rand.New(rand.NewSource(seed))
		ifi := config.Interface{Name: "veth0", Monitor: true, Verbose: sr.Intn(2) == 0}
		nmsg := 20 + sr.Intn(41)
		shadow := map[string]map[string]float64{}
		for _, f := range vMonFamilies {
			shadow[f] = map[string]float64{}
		}
		var viol, cls string
		var det map[string]any
		var ev []vfake.Event
		delivered, invalid := 0, 0
		var onMsgA atomic.Int32
		var readings []time.Time
		wantStep, stepping := r.Part != "race" && i%3 == 1, false
		returned := false
		var runErr error
		pm := vBubble(t, func() {
			h := vNewH(ifi, &model.ExpIface{}, time.Duration(sr.Int63n(1e9)))
			h.startMonitor(ifi.Verbose)
			h.mon.OnMessage = func(ndp.Message) { onMsgA.Add(1) }
			h.settle()
			// one sequence in three: a clock that moves on between two readings, as a
			// real one does (found by type, so a renamed field is still found)
			if wantStep {
				stepping = c18SetClock(h.mon, func() time.Time {
					t := time.Now().Add(time.Duration(len(readings)) * c18Step)
					readings = append(readings, t)
					return t
				})
				if !stepping {
					r.Count("stepping_clock_unavailable", 1)
				}
			}
			run := 0
			var lastRA *ndp.RouterAdvertisement
			var lastFrom netip.Addr
			flapAt, coincident := -1, false
			if i%4 == 2 {
				flapAt = nmsg / 2
			}
			for k := 0; k < nmsg && viol == ""; k++ {
				if k == flapAt {
					// the link flaps: the monitor is re-established on a new connection
					// and goes on counting where it was (series are cumulative)
					h.tr.Add(vfake.Event{Kind: "link_event"})
					h.watchC <- 2 // netstate.LinkDown
					r.Count("sequences_with_link_flap", 1)
					if i%8 == 6 {
						// ... in the very instant the next message arrives: the read that is
						// under way may still complete, and a message that was read counts,
						// whether or not the task is being torn down around it
						coincident = true
						r.Count("link_flaps_coinciding_with_a_message", 1)
					} else {
						time.Sleep(10 * time.Millisecond)
						h.settle()
					}
				}
				if !coincident {
					time.Sleep(steps[sr.Intn(len(steps))])
				}
				from := netip.MustParseAddr(senders[sr.Intn(len(senders))])
				host := from.WithZone("").String()
				var msg ndp.Message
				if lastRA != nil && sr.Intn(4) == 0 {
					// routers repeat the same RA periodically: an identical message from the
					// same sender must move every expiry timestamp to the new receipt time
					from, host, msg = lastFrom, lastFrom.WithZone("").String(), lastRA
				} else {
					switch sr.Intn(6) {
					case 0:
						msg = vRS(sr.Intn(2) == 0)
					case 1:
						msg = &ndp.NeighborSolicitation{TargetAddress: netip.MustParseAddr("fe80::5")}
					case 2:
						msg = &ndp.NeighborAdvertisement{TargetAddress: netip.MustParseAddr("fe80::6")}
					default:
						msg = vMonRA(sr)
					}
				}
				if ra, ok := msg.(*ndp.RouterAdvertisement); ok {
					lastRA, lastFrom = ra, from
				} else if sr.Intn(5) == 0 {
					// solicitations of a host that has no address yet (duplicate address
					// detection, first RS after boot) come from the unspecified address:
					// a sender address like any other
					from, host = netip.MustParseAddr("::"), "::"
					if rs, ok := msg.(*ndp.RouterSolicitation); ok && len(rs.Options) > 0 {
						msg = vRS(false) // RFC 4861 6.1.1: no source link-layer option from ::
					}
				}
				hop := 255
				if invalidRate > 0 && (run > 0 && run < 9 && sr.Intn(3) != 0 || sr.Intn(invalidRate+2) == 0) {
					hop = []int{0, 1, 64, 254}[sr.Intn(4)]
					run++
				} else {
					run = 0
				}
				before := int(onMsgA.Load())
				readings = readings[:0]
				var raUpd func(time.Time)
				var undo []func()
				set := func(f, k string, v float64) {
					old, had := shadow[f][k]
					undo = append(undo, func() {
						if had {
							shadow[f][k] = old
						} else {
							delete(shadow[f], k)
						}
					})
					shadow[f][k] = v
				}
				readsBefore := len(vOnly(h.tr.Events(), "read_deliver"))
				h.deliver(vfake.In{Msg: msg, Hop: hop, From: from})
				h.settle()
				now := time.Now() // the receipt time: a read takes no virtual time
				if coincident {
					coincident = false
					time.Sleep(10 * time.Millisecond)
					h.settle()
					if len(vOnly(h.tr.Events(), "read_deliver")) == readsBefore {
						// the old connection was closed before the message was read: it
						// never reached the monitor, nothing to account for
						r.Count("coinciding_messages_lost_with_the_old_socket", 1)
						continue
					}
					r.Count("coinciding_messages_read", 1)
				}
				onMsg := int(onMsgA.Load())
				typ := msg.Type().String()
				if hop != 255 {
					invalid++
					shadow[msgInvalid]["interface=veth0,message="+typ]++
					if onMsg != before {
						viol, cls = "the message callback fired for a message with an invalid hop limit", "invalid-dispatched"
					}
				} else {
					delivered++
					if onMsg != before+1 {
						viol, cls = fmt.Sprintf("the message callback fired %d times for one valid message", onMsg-before), "callback-count"
					}
					shadow[monReceived]["interface=veth0,host="+host+",message="+typ]++
					if ra, ok := msg.(*ndp.RouterAdvertisement); ok {
						raUpd = func(now time.Time) {
							key := "interface=veth0,router=" + host
							set(monFlagManaged, key, float64(b2i(ra.ManagedConfiguration)))
							set(monFlagOther, key, float64(b2i(ra.OtherConfiguration)))
							if ra.RouterLifetime != 0 {
								set(monDefaultRoute, key, float64(now.Add(ra.RouterLifetime).Unix()))
							}
							for _, o := range ra.Options {
								p, ok := o.(*ndp.PrefixInformation)
								if !ok {
									continue
								}
								pk := "interface=veth0,prefix=" + netip.PrefixFrom(p.Prefix, int(p.PrefixLength)).String() + ",router=" + host
								set(monPrefixAutonomous, pk, float64(b2i(p.AutonomousAddressConfiguration)))
								set(monPrefixOnLink, pk, float64(b2i(p.OnLink)))
								set(monPrefixPreferred, pk, float64(now.Add(p.PreferredLifetime).Unix()))
								set(monPrefixValid, pk, float64(now.Add(p.ValidLifetime).Unix()))
							}
						}
					}
				}
				if viol != "" {
					break
				}
				all, _ := h.mm.Series()
				// The receipt time of a message is one instant.  With the stepping clock
				// every reading made while the message was handled is a candidate; all the
				// expiry gauges must follow from one and the same of them.
				cands := []time.Time{now}
				if stepping && len(readings) > 0 {
					cands = readings
					r.Count("stepping_clock_messages", 1)
					r.Max("clock_readings_per_message_max", int64(len(readings)))
				}
				var firstViol, firstCls string
				for ci, c := range cands {
					undo = undo[:0]
					if raUpd != nil {
						raUpd(c)
					}
					v1, c1 := "", ""
					for _, f := range vMonFamilies {
						got := all[f].Samples
						if d := vDiffSamples(shadow[f], got); d != "" {
							v1, c1 = fmt.Sprintf("after message %d (%s from %s, hop %d) series %s: %s", k, typ, from, hop, f, d), "series:"+f
							break
						}
					}
					if v1 == "" {
						firstViol = ""
						break
					}
					if ci == 0 {
						firstViol, firstCls = v1, c1
					}
					if ci < len(cands)-1 {
						for j := len(undo) - 1; j >= 0; j-- {
							undo[j]()
						}
					}
				}
				if firstViol != "" {
					viol, cls = firstViol, firstCls
					if len(cands) > 1 {
						viol += fmt.Sprintf(" (the clock was read %d times while this message was handled, %v apart; no single reading accounts for every expiry gauge)", len(cands), c18Step)
					}
					det = map[string]any{"message": fmt.Sprintf("%+v", msg)}
				}
				select {
				case <-h.runDone:
					viol, cls = fmt.Sprintf("the monitor returned (%v) while messages were still arriving", h.runErr), "monitor-ended"
				default:
				}
			}
			h.stop(true)
			returned = h.waitRun(vWatchdog)
			runErr = h.runErr
			time.Sleep(time.Second)
			h.settle()
			ev = h.tr.Events()
		})
		r.Count("messages_delivered_valid", delivered)
		r.Count("messages_delivered_invalid", invalid)
		r.Count("events_observed", len(ev))
		if pm != "" && !strings.Contains(pm, "blocked goroutines remain") {
			r.Violation(id, "bubble-panic", pm, map[string]any{"trace": vfake.Strings(ev, 40)})
			continue
		}
		if viol == "" && !returned {
			viol, cls = "the monitor did not return within 200 virtual seconds of cancel", "no-return"
		}
		if viol == "" && runErr != nil {
			viol, cls = "the monitor reported an error on cancel: "+runErr.Error(), "run-error"
		}
		if viol == "" {
			for _, e := range ev {
				if e.Kind == "write_begin" {
					viol, cls = "a monitoring interface transmitted a packet", "monitor-transmits"
				}
			}
		}
		if viol != "" {
			if det == nil {
				det = map[string]any{}
			}
			det["seed"] = seed
			det["trace_tail"] = vfake.Strings(tail(vOnly(ev, "read_deliver", "run_return", "cancel", "dial"), 12), 12)
			r.Violation(id, cls, viol, det)
			continue
		}
		if prop == "C18" || invalid > 0 {
			r.Nontrivial(id)
		}
		if r.WantSample() {
			var keys []string
			for f, m := range shadow {
				for k, v := range m {
					keys = append(keys, fmt.Sprintf("%s{%s}=%v", f, k, v))
				}
			}
			sort.Strings(keys)
			if len(keys) > 12 {
				keys = keys[:12]
			}
			r.Sample(map[string]any{"id": id, "messages": nmsg, "valid": delivered, "invalid": invalid, "final_series_excerpt": keys})
		}
	}
}

func tail(ev []vfake.Event, n int) []vfake.Event {
	if len(ev) > n {
		return ev[len(ev)-n:]
	}
	return ev
}

// c18Step: how far the stepping clock moves between two readings.
const c18Step = 350 * time.Millisecond

// c18SetClock replaces the monitor's clock (the one field of type
// func() time.Time) and reports whether there is one.
func c18SetClock(m *Monitor, f func() time.Time) bool {
	v := reflect.ValueOf(m).Elem()
	want := reflect.TypeOf(f)
	for i := 0; i < v.NumField(); i++ {
		if v.Field(i).Type() == want {
			*(*func() time.Time)(unsafe.Pointer(v.Field(i).UnsafeAddr())) = f
			return true
		}
	}
	return false
}
