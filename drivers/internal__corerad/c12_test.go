//go:build verif

package corerad

import (
	"fmt"
	"math/rand"
	"net/netip"
	"sort"
	"strings"
	"testing"
	"time"

	"github.com/mdlayher/ndp"
	"verif.local/model"
	"verif.local/vlib"
)

// vExpectedProblems is the RFC 4861 §6.2.7 specification (with CoreRAD's
// documented extensions) as a multiset of "field|details".
func vExpectedProblems(a, b *ndp.RouterAdvertisement) (out []string, dontcare bool) {
	add := func(f, d string) { out = append(out, f+"|"+d) }
	if a.CurrentHopLimit != b.CurrentHopLimit {
		if a.CurrentHopLimit == 0 || b.CurrentHopLimit == 0 {
			dontcare = true // RFC exempts the unspecified value, the statement does not say
		} else {
			add("hop_limit", "")
		}
	}
	if a.ManagedConfiguration != b.ManagedConfiguration {
		add("managed_configuration", "")
	}
	if a.OtherConfiguration != b.OtherConfiguration {
		add("other_configuration", "")
	}
	if a.ReachableTime != 0 && b.ReachableTime != 0 && a.ReachableTime != b.ReachableTime {
		add("reachable_time", "")
	}
	if a.RetransmitTimer != 0 && b.RetransmitTimer != 0 && a.RetransmitTimer != b.RetransmitTimer {
		add("retransmit_timer", "")
	}
	var (
		mtuA, mtuB []*ndp.MTU
		piA, piB   []*ndp.PrefixInformation
		riA, riB   []*ndp.RouteInformation
		rdA, rdB   []*ndp.RecursiveDNSServer
		dsA, dsB   []*ndp.DNSSearchList
		cpA, cpB   []*ndp.CaptivePortal
	)
	split := func(opts []ndp.Option, mtu *[]*ndp.MTU, pi *[]*ndp.PrefixInformation, ri *[]*ndp.RouteInformation, rd *[]*ndp.RecursiveDNSServer, ds *[]*ndp.DNSSearchList, cp *[]*ndp.CaptivePortal) {
		for _, o := range opts {
			switch o := o.(type) {
			case *ndp.MTU:
				*mtu = append(*mtu, o)
			case *ndp.PrefixInformation:
				*pi = append(*pi, o)
			case *ndp.RouteInformation:
				*ri = append(*ri, o)
			case *ndp.RecursiveDNSServer:
				*rd = append(*rd, o)
			case *ndp.DNSSearchList:
				*ds = append(*ds, o)
			case *ndp.CaptivePortal:
				*cp = append(*cp, o)
			}
		}
	}
	split(a.Options, &mtuA, &piA, &riA, &rdA, &dsA, &cpA)
	split(b.Options, &mtuB, &piB, &riB, &rdB, &dsB, &cpB)
	if len(mtuA) > 0 && len(mtuB) > 0 && mtuA[0].MTU != mtuB[0].MTU {
		add("mtu", "")
	}
	for _, x := range piA {
		for _, y := range piB {
			if x.Prefix != y.Prefix || x.PrefixLength != y.PrefixLength {
				continue
			}
			cidr := netip.PrefixFrom(x.Prefix, int(x.PrefixLength)).String()
			if x.PreferredLifetime != y.PreferredLifetime {
				add("prefix_information_preferred_lifetime", cidr)
			}
			if x.ValidLifetime != y.ValidLifetime {
				add("prefix_information_valid_lifetime", cidr)
			}
		}
	}
	for _, x := range riA {
		for _, y := range riB {
			if x.Prefix != y.Prefix || x.PrefixLength != y.PrefixLength || x.Preference != y.Preference {
				continue
			}
			if x.RouteLifetime != y.RouteLifetime {
				add("route_information_lifetime", netip.PrefixFrom(x.Prefix, int(x.PrefixLength)).String())
			}
		}
	}
	if len(rdA) > 0 && len(rdB) > 0 {
		if len(rdA) != len(rdB) {
			add("rdnss_count", "")
		} else {
			for i := range rdA {
				if rdA[i].Lifetime != rdB[i].Lifetime {
					add("rdnss_lifetime", "")
				}
				if fmt.Sprint(rdA[i].Servers) != fmt.Sprint(rdB[i].Servers) {
					add("rdnss_servers", "")
				}
			}
		}
	}
	if len(dsA) > 0 && len(dsB) > 0 {
		if len(dsA) != len(dsB) {
			add("dnssl_count", "")
		} else {
			for i := range dsA {
				if dsA[i].Lifetime != dsB[i].Lifetime {
					add("dnssl_lifetime", "")
				}
				if strings.Join(dsA[i].DomainNames, "\x00") != strings.Join(dsB[i].DomainNames, "\x00") {
					add("dnssl_domain_names", "")
				}
			}
		}
	}
	if len(cpA) > 0 && len(cpB) > 0 && cpA[0].URI != cpB[0].URI {
		add("captive_portal", "")
	}
	sort.Strings(out)
	return out, dontcare
}

func vRoundTrip(ra *ndp.RouterAdvertisement) (*ndp.RouterAdvertisement, error) {
	b, err := ndp.MarshalMessage(ra)
	if err != nil {
		return nil, err
	}
	m, err := ndp.ParseMessage(b)
	if err != nil {
		return nil, err
	}
	out, ok := m.(*ndp.RouterAdvertisement)
	if !ok {
		return nil, fmt.Errorf("decoded as %T", m)
	}
	return out, nil
}

// Value domains: {absent, A, B} for every aspect.
type vAspect struct {
	name  string
	apply func(ra *ndp.RouterAdvertisement, v int) // v: 0 absent/zero, 1 = A, 2 = B
}

func vAddr(s string) netip.Addr { return netip.MustParseAddr(s) }

var vAspects = []vAspect{
	{"hop_limit", func(ra *ndp.RouterAdvertisement, v int) { ra.CurrentHopLimit = []uint8{0, 64, 255}[v] }},
	{"managed", func(ra *ndp.RouterAdvertisement, v int) { ra.ManagedConfiguration = v == 1 }},
	{"other", func(ra *ndp.RouterAdvertisement, v int) { ra.OtherConfiguration = v == 2 }},
	{"reachable", func(ra *ndp.RouterAdvertisement, v int) {
		ra.ReachableTime = []time.Duration{0, 30 * time.Second, 45 * time.Second}[v]
	}},
	{"retransmit", func(ra *ndp.RouterAdvertisement, v int) {
		ra.RetransmitTimer = []time.Duration{0, time.Second, 1500 * time.Millisecond}[v]
	}},
	{"router_lifetime", func(ra *ndp.RouterAdvertisement, v int) {
		ra.RouterLifetime = []time.Duration{0, 1800 * time.Second, 600 * time.Second}[v]
	}},
	{"preference", func(ra *ndp.RouterAdvertisement, v int) {
		ra.RouterSelectionPreference = []ndp.Preference{ndp.Medium, ndp.High, ndp.Low}[v]
	}},
	{"mtu", func(ra *ndp.RouterAdvertisement, v int) {
		if v > 0 {
			ra.Options = append(ra.Options, ndp.NewMTU([]uint32{0, 1500, 1280}[v]))
		}
	}},
	{"prefix", func(ra *ndp.RouterAdvertisement, v int) {
		if v > 0 {
			ra.Options = append(ra.Options, &ndp.PrefixInformation{PrefixLength: 64, OnLink: true, AutonomousAddressConfiguration: true,
				ValidLifetime: []time.Duration{0, 24 * time.Hour, 12 * time.Hour}[v], PreferredLifetime: 4 * time.Hour, Prefix: vAddr("2001:db8::")})
		}
	}},
	{"prefix_preferred", func(ra *ndp.RouterAdvertisement, v int) {
		if v > 0 {
			ra.Options = append(ra.Options, &ndp.PrefixInformation{PrefixLength: 64, OnLink: v == 1,
				ValidLifetime: 24 * time.Hour, PreferredLifetime: []time.Duration{0, 4 * time.Hour, 2 * time.Hour}[v], Prefix: vAddr("2001:db8:1::")})
		}
	}},
	{"prefix_other_net", func(ra *ndp.RouterAdvertisement, v int) {
		if v > 0 {
			ra.Options = append(ra.Options, &ndp.PrefixInformation{PrefixLength: []uint8{0, 64, 56}[v], ValidLifetime: time.Duration(v) * time.Hour, PreferredLifetime: time.Duration(v) * time.Minute,
				Prefix: vAddr([]string{"", "2001:db8:2::", "2001:db8:2::"}[v])})
		}
	}},
	{"route", func(ra *ndp.RouterAdvertisement, v int) {
		if v > 0 {
			ra.Options = append(ra.Options, &ndp.RouteInformation{PrefixLength: 48, Preference: ndp.Medium, RouteLifetime: []time.Duration{0, time.Hour, 2 * time.Hour}[v], Prefix: vAddr("2001:db8:ffff::")})
		}
	}},
	{"route_pref", func(ra *ndp.RouterAdvertisement, v int) {
		if v > 0 {
			ra.Options = append(ra.Options, &ndp.RouteInformation{PrefixLength: 64, Preference: []ndp.Preference{0, ndp.High, ndp.Low}[v], RouteLifetime: time.Duration(v) * time.Hour, Prefix: vAddr("2001:db8:eeee::")})
		}
	}},
	{"rdnss", func(ra *ndp.RouterAdvertisement, v int) {
		if v > 0 {
			ra.Options = append(ra.Options, &ndp.RecursiveDNSServer{Lifetime: []time.Duration{0, time.Hour, 2 * time.Hour}[v], Servers: []netip.Addr{vAddr("2001:db8::53")}})
		}
	}},
	{"rdnss_servers", func(ra *ndp.RouterAdvertisement, v int) {
		if v > 0 {
			ra.Options = append(ra.Options, &ndp.RecursiveDNSServer{Lifetime: time.Hour, Servers: [][]netip.Addr{nil, {vAddr("fd00::53"), vAddr("fd00::54")}, {vAddr("fd00::53")}}[v]})
		}
	}},
	{"dnssl", func(ra *ndp.RouterAdvertisement, v int) {
		if v > 0 {
			ra.Options = append(ra.Options, &ndp.DNSSearchList{Lifetime: []time.Duration{0, time.Hour, 2 * time.Hour}[v], DomainNames: []string{"example.com"}})
		}
	}},
	{"dnssl_names", func(ra *ndp.RouterAdvertisement, v int) {
		if v > 0 {
			ra.Options = append(ra.Options, &ndp.DNSSearchList{Lifetime: time.Hour, DomainNames: [][]string{nil, {"a.example", "b.example"}, {"a.example", "c.example"}}[v]})
		}
	}},
	{"captive_portal", func(ra *ndp.RouterAdvertisement, v int) {
		if v > 0 {
			ra.Options = append(ra.Options, &ndp.CaptivePortal{URI: []string{"", "https://portal.example/a", "https://portal.example/b"}[v]})
		}
	}},
	{"slla", func(ra *ndp.RouterAdvertisement, v int) {
		if v > 0 {
			ra.Options = append(ra.Options, &ndp.LinkLayerAddress{Direction: ndp.Source, Addr: []byte{2, 0, 0, 0, 0, byte(v)}})
		}
	}},
	{"pref64", func(ra *ndp.RouterAdvertisement, v int) {
		if v > 0 {
			ra.Options = append(ra.Options, &ndp.PREF64{Prefix: netip.MustParsePrefix([]string{"", "64:ff9b::/96", "2001:db8:64::/64"}[v]), Lifetime: 1800 * time.Second})
		}
	}},
}

func vBuildRA(vals []int) *ndp.RouterAdvertisement {
	ra := &ndp.RouterAdvertisement{CurrentHopLimit: 64}
	for i, a := range vAspects {
		a.apply(ra, vals[i])
	}
	return ra
}

func vRandomRA(rr *rand.Rand) *ndp.RouterAdvertisement {
	ra := &ndp.RouterAdvertisement{
		CurrentHopLimit: []uint8{64, 64, 255, 1, 0}[rr.Intn(5)], ManagedConfiguration: rr.Intn(2) == 0, OtherConfiguration: rr.Intn(2) == 0,
		RouterSelectionPreference: []ndp.Preference{ndp.Medium, ndp.High, ndp.Low}[rr.Intn(3)],
		RouterLifetime:            time.Duration(rr.Intn(3)) * 600 * time.Second,
		ReachableTime:             time.Duration(rr.Intn(3)) * 15 * time.Second, RetransmitTimer: time.Duration(rr.Intn(3)) * 500 * time.Millisecond,
	}
	nets := []string{"2001:db8::", "2001:db8:1::", "2001:db8:2::", "fd00::"}
	lts := []time.Duration{0, time.Hour, 4 * time.Hour, 24 * time.Hour, ndp.Infinity}
	for i, n := 0, rr.Intn(5); i < n; i++ {
		ra.Options = append(ra.Options, &ndp.PrefixInformation{PrefixLength: []uint8{64, 64, 56}[rr.Intn(3)], OnLink: rr.Intn(2) == 0, AutonomousAddressConfiguration: rr.Intn(2) == 0,
			ValidLifetime: lts[rr.Intn(len(lts))], PreferredLifetime: lts[rr.Intn(len(lts))], Prefix: vAddr(nets[rr.Intn(len(nets))])})
	}
	for i, n := 0, rr.Intn(4); i < n; i++ {
		ra.Options = append(ra.Options, &ndp.RouteInformation{PrefixLength: []uint8{48, 64, 0}[rr.Intn(3)], Preference: []ndp.Preference{ndp.Medium, ndp.High, ndp.Low}[rr.Intn(3)],
			RouteLifetime: lts[rr.Intn(len(lts))], Prefix: vAddr([]string{"2001:db8:ffff::", "2001:db8:eeee::", "::"}[rr.Intn(3)])})
	}
	// A /0 route must have the unspecified prefix to encode.
	for _, o := range ra.Options {
		if ri, ok := o.(*ndp.RouteInformation); ok && ri.PrefixLength == 0 {
			ri.Prefix = vAddr("::")
		} else if ok && ri.Prefix == vAddr("::") {
			ri.Prefix = vAddr("2001:db8:dddd::")
		}
	}
	srv := []netip.Addr{vAddr("2001:db8::53"), vAddr("fd00::53"), vAddr("fe80::53")}
	for i, n := 0, rr.Intn(4); i < n; i++ {
		k := 1 + rr.Intn(3)
		ra.Options = append(ra.Options, &ndp.RecursiveDNSServer{Lifetime: lts[rr.Intn(len(lts))], Servers: append([]netip.Addr(nil), srv[:k]...)})
	}
	names := []string{"example.com", "lan", "corp.example.net"}
	for i, n := 0, rr.Intn(4); i < n; i++ {
		k := 1 + rr.Intn(3)
		ra.Options = append(ra.Options, &ndp.DNSSearchList{Lifetime: lts[rr.Intn(len(lts))], DomainNames: append([]string(nil), names[rr.Intn(3-k+1):][:k]...)})
	}
	if rr.Intn(2) == 0 {
		ra.Options = append(ra.Options, ndp.NewMTU([]uint32{1500, 1280, 9000}[rr.Intn(3)]))
	}
	if rr.Intn(3) == 0 {
		ra.Options = append(ra.Options, ndp.NewMTU(1400)) // a second MTU option
	}
	if rr.Intn(2) == 0 {
		ra.Options = append(ra.Options, &ndp.LinkLayerAddress{Direction: ndp.Source, Addr: []byte{2, 0, 0, 0, 0, byte(rr.Intn(3))}})
	}
	if rr.Intn(2) == 0 {
		ra.Options = append(ra.Options, &ndp.CaptivePortal{URI: []string{"https://portal.example/a", "https://portal.example/b", ndp.Unrestricted}[rr.Intn(3)]})
	}
	if rr.Intn(3) == 0 {
		ra.Options = append(ra.Options, &ndp.PREF64{Prefix: netip.MustParsePrefix("64:ff9b::/96"), Lifetime: 600 * time.Second})
	}
	if rr.Intn(4) == 0 {
		ra.Options = append(ra.Options, &ndp.RawOption{Type: 200, Length: 1, Value: []byte{1, 2, 3, 4, 5, 6}})
	}
	if rr.Intn(6) == 0 {
		ra.Options = append(ra.Options, ndp.NewNonce())
	}
	rr.Shuffle(len(ra.Options), func(i, j int) { ra.Options[i], ra.Options[j] = ra.Options[j], ra.Options[i] })
	return ra
}

func vDistinctPrefixesAndRoutes(ra *ndp.RouterAdvertisement) bool {
	seen := map[string]bool{}
	for _, o := range ra.Options {
		var k string
		switch o := o.(type) {
		case *ndp.PrefixInformation:
			k = fmt.Sprintf("p%s/%d", o.Prefix, o.PrefixLength)
		case *ndp.RouteInformation:
			k = fmt.Sprintf("r%s/%d", o.Prefix, o.PrefixLength)
		default:
			continue
		}
		if seen[k] {
			return false
		}
		seen[k] = true
	}
	return true
}

func vProblemKeys(ps []problem) []string {
	out := make([]string, 0, len(ps))
	for _, p := range ps {
		out = append(out, p.Field+"|"+p.Details)
	}
	sort.Strings(out)
	return out
}

// TestVerifC12 — exactly the RFC 4861 §6.2.7 inconsistencies.
func TestVerifC12(t *testing.T) {
	r := vlib.Start("C12", "verify")
	defer r.Finish()

	check := func(id string, ours, theirsRaw *ndp.RouterAdvertisement) {
		theirs, err := vRoundTrip(theirsRaw)
		if err != nil {
			r.Count("skipped_unencodable", 1)
			return
		}
		r.Begin(id)
		var got []string
		if !r.Guard(id, "panic", func() { got = vProblemKeys(verifyRAs(ours, theirs)) }) {
			return
		}
		want, dc := vExpectedProblems(ours, theirs)
		if dc {
			r.Count("dontcare_hop_limit_zero", 1)
			return
		}
		if strings.Join(want, ";") != strings.Join(got, ";") {
			cls := "spurious-or-missing"
			if len(want) == 0 {
				cls = "spurious-report:" + strings.SplitN(got[0], "|", 2)[0]
			} else if len(got) == 0 {
				cls = "missed-report:" + strings.SplitN(want[0], "|", 2)[0]
			}
			r.Violation(id, cls, fmt.Sprintf("reported %v, RFC 4861 6.2.7 calls for exactly %v", got, want),
				map[string]any{"ours": model.FromNDP(ours), "theirs": model.FromNDP(theirs)})
		}
		if len(want) > 0 {
			r.Nontrivial(id)
			r.Count("pairs_with_expected_problems", 1)
			for _, w := range want {
				r.Distinct("fields_expected", strings.SplitN(w, "|", 2)[0])
			}
		}
		if r.WantSample() && len(want) >= 2 {
			r.Sample(map[string]any{"id": id, "ours": model.FromNDP(ours), "theirs": model.FromNDP(theirs), "expected_problems": want})
		}
	}

	// (1) every aspect alone, 3×3, and crossed pairwise with one other aspect.
	n := len(vAspects)
	base := make([]int, n)
	for i := 0; i < n; i++ {
		for j := i; j < n; j++ {
			for va := 0; va < 3; va++ {
				for vb := 0; vb < 3; vb++ {
					for wa := 0; wa < 3; wa++ {
						for wb := 0; wb < 3; wb++ {
							if i == j && (wa != va || wb != vb) {
								continue
							}
							id := fmt.Sprintf("grid/%s=%d:%d/%s=%d:%d", vAspects[i].name, va, vb, vAspects[j].name, wa, wb)
							if !r.Mine(id) {
								continue
							}
							x := append([]int{}, base...)
							y := append([]int{}, base...)
							x[i], y[i] = va, vb
							if j != i {
								x[j], y[j] = wa, wb
							}
							check(id, vBuildRA(x), vBuildRA(y))
						}
					}
				}
			}
		}
	}

	// (2) random larger RAs, both orders; and self round trip.
	rr := r.Rand("c12", "random")
	m := r.Pick(6000, 2000000)
	for i := 0; i < m; i++ {
		a, b := vRandomRA(rr), vRandomRA(rr)
		oneUnit, caseOnly := false, false
		if rr.Intn(3) == 0 {
			// mostly-equal pair: perturb a copy
			b2, err := vRoundTrip(a)
			if err == nil {
				b = b2
				switch rr.Intn(5) {
				case 4:
					// a search-list name that differs in letter case only: the contents of
					// the option differ (the wire carries the case as written)
					for _, o := range b.Options {
						if d, ok := o.(*ndp.DNSSearchList); ok && len(d.DomainNames) > 0 {
							d.DomainNames = append([]string(nil), d.DomainNames...)
							j := rr.Intn(len(d.DomainNames))
							d.DomainNames[j] = strings.ToUpper(d.DomainNames[j][:1]) + d.DomainNames[j][1:]
							caseOnly = true
							break
						}
					}
				case 0:
					b.CurrentHopLimit ^= 1
				case 1:
					b.ManagedConfiguration = !b.ManagedConfiguration
				case 2:
					if len(b.Options) > 0 {
						b.Options = b.Options[:len(b.Options)-1]
					}
				case 3:
					// the smallest difference the wire can carry, in one field: one second
					// in an option's lifetime, one millisecond in a header timer, one in
					// the MTU - as much an inconsistency as a large one
					d := time.Duration(1 - 2*rr.Intn(2))
					k := rr.Intn(len(b.Options) + 1)
					if k == len(b.Options) {
						if rr.Intn(2) == 0 && b.ReachableTime > 0 {
							b.ReachableTime += d * time.Millisecond
						} else if b.RetransmitTimer > 0 {
							b.RetransmitTimer += d * time.Millisecond
						}
						break
					}
					adj := func(v *time.Duration) {
						if *v != ndp.Infinity && *v+d*time.Second >= 0 {
							*v += d * time.Second
						}
					}
					switch o := b.Options[k].(type) {
					case *ndp.PrefixInformation:
						if rr.Intn(2) == 0 {
							adj(&o.ValidLifetime)
						} else {
							adj(&o.PreferredLifetime)
						}
					case *ndp.RouteInformation:
						adj(&o.RouteLifetime)
					case *ndp.RecursiveDNSServer:
						adj(&o.Lifetime)
					case *ndp.DNSSearchList:
						adj(&o.Lifetime)
					case *ndp.MTU:
						o.MTU = uint32(int64(o.MTU) + int64(d))
					}
					oneUnit = true
				}
			}
		}
		id := fmt.Sprintf("rand/%d", i)
		if r.Mine(id) {
			if oneUnit {
				r.Count("pairs_differing_by_one_unit", 1)
			}
			if caseOnly {
				r.Count("pairs_differing_in_letter_case_only", 1)
			}
			check(id, a, b)
			check(id+"/swapped", b, a)
		}
		sid := fmt.Sprintf("self/%d", i)
		if r.Mine(sid) && vDistinctPrefixesAndRoutes(a) {
			r.Begin(sid)
			rt, err := vRoundTrip(a)
			if err == nil {
				if ps := verifyRAs(a, rt); len(ps) != 0 {
					r.Violation(sid, "self-inconsistent:"+ps[0].Field, fmt.Sprintf("an RA was reported inconsistent with its own wire round trip: %v", vProblemKeys(ps)), map[string]any{"ra": model.FromNDP(a)})
				}
				r.Count("self_roundtrips", 1)
			}
		}
	}
}
