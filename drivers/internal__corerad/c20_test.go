//go:build verif

package corerad

import (
	"context"
	"errors"
	"fmt"
	"io"
	"log"
	"net"
	"net/http"
	"os"
	"path/filepath"
	"reflect"
	"runtime"
	"strings"
	"sync"
	"sync/atomic"
	"syscall"
	"testing"
	"time"
	"unsafe"

	"github.com/mdlayher/corerad/internal/config"
	"github.com/mdlayher/corerad/internal/netstate"
	"github.com/mdlayher/corerad/internal/system"
	"github.com/mdlayher/sdnotify"
	"verif.local/vlib"
)

type c20Log struct {
	mu sync.Mutex
	ev []string
}

func (l *c20Log) add(f string, a ...any) int {
	l.mu.Lock()
	defer l.mu.Unlock()
	l.ev = append(l.ev, fmt.Sprintf(f, a...))
	return len(l.ev) - 1
}

func (l *c20Log) snapshot() []string {
	l.mu.Lock()
	defer l.mu.Unlock()
	return append([]string(nil), l.ev...)
}

func (l *c20Log) index(prefix string) int {
	l.mu.Lock()
	defer l.mu.Unlock()
	for i, e := range l.ev {
		if strings.HasPrefix(e, prefix) {
			return i
		}
	}
	return -1
}

func (l *c20Log) has(prefix string) bool { return l.index(prefix) >= 0 }

// A c20Task is a scripted Task.
type c20Task struct {
	name     string
	run      string // block fail early
	stop     string // prompt slow
	ready    string // now gate never
	lg       *c20Log
	term     func() bool
	readyC   chan struct{}
	trigger  chan struct{} // fail / return early
	onCancel func()        // called the moment the task observes the cancellation
	stopGate chan struct{} // slow stop
	err      error
}

func (t *c20Task) String() string         { return t.name }
func (t *c20Task) Ready() <-chan struct{} { return t.readyC }

func (t *c20Task) Run(ctx context.Context) error {
	t.lg.add("run_enter %s", t.name)
	if t.term != nil {
		t.lg.add("terminate_read_before %s %v", t.name, t.term())
	}
	if t.ready == "now" {
		close(t.readyC)
	}
	var err error
	select {
	case <-ctx.Done():
		if t.onCancel != nil {
			t.onCancel()
		}
		t.lg.add("ctx_done_seen %s", t.name)
		if t.term != nil {
			t.lg.add("terminate_read_after %s %v", t.name, t.term())
		}
		if t.stop == "slow" {
			<-t.stopGate
		}
	case <-t.trigger:
		if t.run == "fail" {
			err = t.err
		}
	}
	t.lg.add("run_exit %s err=%v", t.name, err)
	return err
}

type c20Case struct {
	ID    string
	Tasks []struct{ Run, Stop, Ready string }
	Stim  string // signal fail fail+signal signal+fail
	Sig   string // INT TERM HUP
	FailJ int
	// HoldLock: deliver the signal while the harness holds the terminator's lock.
	HoldLock bool
	// NotifyGone: the supervisor's notification socket disappears after readiness
	// was announced, so every later notification fails.
	NotifyGone bool
	// ErrKind: what the failing task's error wraps (a task may fail with an
	// error from a private context or connection of its own).
	ErrKind string
}

func c20Err(kind string, i int) error {
	switch kind {
	case "canceled":
		return fmt.Errorf("boom-from-task%d: private operation: %w", i, context.Canceled)
	case "deadline":
		return fmt.Errorf("boom-from-task%d: private operation: %w", i, context.DeadlineExceeded)
	case "closed":
		return fmt.Errorf("boom-from-task%d: %w", i, net.ErrClosed)
	case "eof":
		return fmt.Errorf("boom-from-task%d: %w", i, io.EOF)
	}
	return fmt.Errorf("boom-from-task%d", i)
}

func c20Sig(s string) os.Signal {
	switch s {
	case "INT":
		return os.Interrupt
	case "TERM":
		return syscall.SIGTERM
	case "QUIT":
		return syscall.SIGQUIT
	case "USR1":
		return syscall.SIGUSR1
	case "USR2":
		return syscall.SIGUSR2
	case "ALRM":
		return syscall.SIGALRM
	}
	return syscall.SIGHUP
}

func c20WaitFor(cond func() bool, max time.Duration) bool {
	dl := time.Now().Add(max)
	for !cond() {
		if time.Now().After(dl) {
			return false
		}
		time.Sleep(200 * time.Microsecond)
	}
	return true
}

func c20Run(r *vlib.Run, c *c20Case, dir string) {
	lg := &c20Log{}
	srv := NewServer(NewContext(log.New(io.Discard, "", 0), nil, system.TestState{}))
	// notification socket
	sock := filepath.Join(dir, fmt.Sprintf("n%d.sock", vlib.Hash64(c.ID)%1000000))
	_ = os.Remove(sock)
	pc, err := net.ListenUnixgram("unixgram", &net.UnixAddr{Name: sock, Net: "unixgram"})
	if err != nil {
		r.Inconclusive(c.ID, "cannot create notify socket: "+err.Error())
		return
	}
	defer pc.Close()
	defer os.Remove(sock)
	go func() {
		buf := make([]byte, 4096)
		for {
			n, _, err := pc.ReadFromUnix(buf)
			if err != nil {
				return
			}
			for _, line := range strings.Split(string(buf[:n]), "\n") {
				if strings.HasPrefix(line, "READY=") || strings.HasPrefix(line, "STOPPING=") {
					lg.add("notify %s", line)
				}
			}
		}
	}()
	n, err := sdnotify.Open(sock)
	if err != nil {
		r.Inconclusive(c.ID, "cannot open notifier: "+err.Error())
		return
	}
	defer n.Close()

	var tasks []Task
	var sts []*c20Task
	for i, tc := range c.Tasks {
		st := &c20Task{name: fmt.Sprintf("task%d", i), run: tc.Run, stop: tc.Stop, ready: tc.Ready, lg: lg, term: c20TerminateFunc(r, srv),
			readyC: make(chan struct{}), trigger: make(chan struct{}), stopGate: make(chan struct{}), err: c20Err(c.ErrKind, i)}
		sts = append(sts, st)
		tasks = append(tasks, st)
	}
	sigC := make(chan os.Signal, 1)
	var serveErr error
	done := make(chan struct{})
	go func() {
		serveErr = srv.Serve(sigC, n, tasks)
		lg.add("serve_return err=%v", serveErr)
		close(done)
	}()
	det := func() map[string]any { return map[string]any{"case": c, "log": lg.snapshot()} }
	returnedEarly := func() bool {
		select {
		case <-done:
			return true
		default:
			return false
		}
	}
	// all tasks running
	if !c20WaitFor(func() bool {
		for _, st := range sts {
			if !lg.has("run_enter " + st.name) {
				return false
			}
		}
		return true
	}, 5*time.Second) {
		r.Inconclusive(c.ID, "tasks did not all start within 5 s")
		return
	}
	// readiness
	var gated []*c20Task
	never := false
	for _, st := range sts {
		switch st.ready {
		case "gate":
			gated = append(gated, st)
		case "never":
			never = true
		}
	}
	for i, st := range gated {
		if i == len(gated)-1 {
			time.Sleep(20 * time.Millisecond) // detection power only
			if lg.has("notify READY=1") {
				r.Violation(c.ID, "ready-too-early", "READY=1 was announced before every task had reported ready", det())
				return
			}
		}
		lg.add("release_ready %s", st.name)
		close(st.readyC)
	}
	if never {
		time.Sleep(20 * time.Millisecond)
		if lg.has("notify READY=1") {
			r.Violation(c.ID, "ready-too-early", "READY=1 was announced although one task never reported ready", det())
			return
		}
	} else {
		if !c20WaitFor(func() bool { return lg.has("notify READY=1") }, 3*time.Second) {
			r.Inconclusive(c.ID, "READY=1 not seen within 3 s")
		} else {
			r.Count("ready_announced_after_all_ready", 1)
		}
	}
	if returnedEarly() {
		r.Violation(c.ID, "serve-returned-unprompted", "Serve returned although no task failed and no signal arrived", det())
		return
	}
	// early-returning tasks: Serve must keep going
	for _, st := range sts {
		if st.run == "early" {
			close(st.trigger)
			c20WaitFor(func() bool { return lg.has("run_exit " + st.name) }, 2*time.Second)
		}
	}
	time.Sleep(2 * time.Millisecond)
	if returnedEarly() {
		r.Violation(c.ID, "serve-returned-on-nil-exit", "Serve returned after a task exited without error", det())
		return
	}
	// stimulus
	if c.NotifyGone {
		pc.Close()
		os.Remove(sock)
		lg.add("notify socket gone")
	}
	sig := c20Sig(c.Sig)
	failer := sts[c.FailJ]
	fireFail := func() { lg.add("fail_trigger %s", failer.name); close(failer.trigger) }
	fireSig := func() { lg.add("signal %s", c.Sig); sigC <- sig }
	switch c.Stim {
	case "signal":
		tmu := c20TerminatorLock(srv)
		if c.HoldLock && tmu == nil {
			r.Count("terminator_has_no_lock_to_hold", 1)
		}
		if c.HoldLock && tmu != nil {
			// Hold the terminator's own lock while the signal is delivered: the
			// signal task cannot record terminate/reload until it is released, so no
			// task may observe the cancellation before that (an order in the log,
			// the 15 ms only give an early cancellation time to show).
			tmu.Lock()
			fireSig()
			time.Sleep(15 * time.Millisecond)
			early := ""
			for _, st := range sts {
				if lg.has("ctx_done_seen "+st.name) || lg.has("run_exit "+st.name) && st.run == "block" {
					early = st.name
				}
			}
			lg.add("terminator_lock_released")
			tmu.Unlock()
			if early != "" {
				r.Violation(c.ID, "cancelled-before-recorded", fmt.Sprintf("%s observed the cancellation while the signal had not yet been recorded as terminate/reload", early), det())
				for _, st := range sts {
					func() { defer func() { _ = recover() }(); close(st.stopGate) }()
				}
				<-done
				return
			}
			r.Count("signals_delivered_with_terminator_lock_held", 1)
		} else {
			fireSig()
		}
	case "fail":
		fireFail()
	case "fail+signal":
		fireFail()
		fireSig()
	case "fail>signal":
		// the failure strictly precedes the signal: a task that observes the
		// cancellation caused by the failure sends the signal itself, at once - the
		// signal watcher may still pick it up, but the outcome is the failure's
		relayed := false
		for _, st := range sts {
			if st != failer && st.run == "block" && !relayed {
				st.onCancel = fireSig
				relayed = true
			}
		}
		fireFail()
		if !relayed {
			c20WaitFor(func() bool { return lg.has("run_exit " + failer.name) }, 2*time.Second)
			fireSig()
		}
		r.Count("failure_strictly_before_signal", 1)
	case "signal+fail":
		fireSig()
		fireFail()
	}
	// slow stoppers hold Serve open
	var slow []*c20Task
	for _, st := range sts {
		if st.stop == "slow" {
			slow = append(slow, st)
		}
	}
	if len(slow) > 0 {
		c20WaitFor(func() bool {
			for _, st := range slow {
				if lg.has("ctx_done_seen "+st.name) || lg.has("run_exit "+st.name) {
					return true
				}
			}
			return false
		}, 2*time.Second)
		time.Sleep(10 * time.Millisecond) // detection power only
		for _, st := range slow {
			lg.add("release_stop %s", st.name)
			close(st.stopGate)
		}
	}
	select {
	case <-done:
	case <-time.After(40 * time.Second):
		// hung, or only starved of CPU on an overloaded machine?
		if why := c20Starved(done); why != "" {
			r.Inconclusive(c.ID, "Serve had not returned 40 s after the stimulus, but "+why)
		} else {
			r.Violation(c.ID, "serve-hung", "Serve had not returned 40 s after the stimulus (and every goroutine of the server is parked, in two dumps 10 s apart)", det())
		}
		// release everything so nothing leaks
		for _, st := range sts {
			func() { defer func() { _ = recover() }(); close(st.stopGate) }()
		}
		return
	}
	if never {
		// a task never reported ready: readiness must not be announced, not even
		// while or after the server shuts down
		time.Sleep(30 * time.Millisecond)
		if lg.has("notify READY=1") {
			r.Violation(c.ID, "ready-too-early", "READY=1 was announced during shutdown although one task never reported ready", det())
			return
		}
		r.Count("never_ready_scenarios_checked_after_shutdown", 1)
	}
	ev := lg.snapshot()
	ix := func(prefix string) int {
		for i, e := range ev {
			if strings.HasPrefix(e, prefix) {
				return i
			}
		}
		return -1
	}
	ret := ix("serve_return")
	// 1. every task has returned before Serve returns
	for _, st := range sts {
		x := ix("run_exit " + st.name)
		if x < 0 || x > ret {
			r.Violation(c.ID, "returned-before-task", fmt.Sprintf("Serve returned before %s had returned", st.name), det())
			return
		}
	}
	// 2. cancellation reached every blocking task
	for _, st := range sts {
		if st.run == "block" && ix("ctx_done_seen "+st.name) < 0 {
			r.Violation(c.ID, "task-not-cancelled", fmt.Sprintf("%s never observed the cancellation", st.name), det())
			return
		}
	}
	// 3. result
	wantErrText := failer.err.Error()
	switch c.Stim {
	case "signal":
		if serveErr != nil {
			r.Violation(c.ID, "signal-returns-error", "Serve returned an error after a shutdown signal: "+serveErr.Error(), det())
			return
		}
	case "fail", "fail>signal":
		if serveErr == nil || !strings.Contains(serveErr.Error(), wantErrText) || !strings.Contains(serveErr.Error(), failer.name) {
			r.Violation(c.ID, "failure-not-reported", fmt.Sprintf("Serve returned %v, want the error of %s", serveErr, failer.name), det())
			return
		}
	default:
		if serveErr != nil && !strings.Contains(serveErr.Error(), wantErrText) {
			r.Violation(c.ID, "failure-not-reported", fmt.Sprintf("Serve returned an unrelated error %v", serveErr), det())
			return
		}
	}
	// 4. terminate/reload recorded before any task observes the cancellation
	sigIx := ix("signal ")
	for i, e := range ev {
		if strings.HasPrefix(e, "terminate_read_before ") && strings.HasSuffix(e, " true") {
			r.Violation(c.ID, "terminate-before-signal", "a task read terminate=true before any signal: "+e, det())
			return
		}
		if strings.HasPrefix(e, "terminate_read_after ") && c.Stim == "signal" {
			want := fmt.Sprint(sig != syscall.SIGHUP)
			if !strings.HasSuffix(e, " "+want) || i < sigIx {
				r.Violation(c.ID, "terminate-flag-late", fmt.Sprintf("after SIG%s a task observed the cancellation and read %q (want %s)", c.Sig, e, want), det())
				return
			}
			r.Count("terminate_reads_after_cancel", 1)
		}
	}
	if c.Stim == "signal" && !c.NotifyGone {
		if c20WaitFor(func() bool { return lg.has("notify STOPPING=1") }, 500*time.Millisecond) {
			r.Count("stopping_announced", 1)
		}
	}
	if r.WantSample() && len(sts) >= 3 {
		r.Sample(map[string]any{"case": c, "log": ev})
	}
}

// TestVerifC20 — server supervision.
func TestVerifC20(t *testing.T) {
	part := vPart("build")
	r := vlib.Start("C20", part)
	defer r.Finish()

	if part == "build" {
		rr := r.Rand("c20", "build")
		check := func(id string, modes []int, debug bool) {
			if !r.Mine(id) {
				return
			}
			r.Begin(id)
			var cfg config.Config
			var want []string
			for i, m := range modes {
				name := fmt.Sprintf("eth%d", i)
				ifi := config.Interface{Name: name, MinInterval: 200 * time.Second, MaxInterval: 600 * time.Second, HopLimit: 64}
				switch m {
				case 0:
					ifi.Advertise = true
					want = append(want, fmt.Sprintf("advertiser %q", name))
				case 1:
					ifi.Monitor = true
					want = append(want, fmt.Sprintf("monitor %q", name))
				}
				cfg.Interfaces = append(cfg.Interfaces, ifi)
			}
			if debug {
				cfg.Debug = config.Debug{Address: "127.0.0.1:0", Prometheus: true}
				want = append(want, fmt.Sprintf("debug HTTP server %q", "127.0.0.1:0"))
			}
			want = append(want, "link state watcher")
			srv := NewServer(NewContext(nil, nil, system.TestState{}))
			var got, before []string
			for _, ifi := range cfg.Interfaces {
				before = append(before, fmt.Sprintf("%s/%v/%v", ifi.Name, ifi.Advertise, ifi.Monitor))
			}
			ok := r.Guard(id, "panic", func() {
				for _, tk := range srv.BuildTasks(cfg, http.NotFoundHandler()) {
					got = append(got, tk.String())
				}
			})
			if !ok {
				return
			}
			// the configuration handed to BuildTasks is the one the metrics and the
			// debug API were built from: it must read the same afterwards
			var after []string
			for _, ifi := range cfg.Interfaces {
				after = append(after, fmt.Sprintf("%s/%v/%v", ifi.Name, ifi.Advertise, ifi.Monitor))
			}
			if fmt.Sprint(after) != fmt.Sprint(before) {
				r.Violation(id, "config-altered", fmt.Sprintf("after BuildTasks the configuration's interfaces read %v, before %v", after, before), map[string]any{"modes(0=advertise,1=monitor,2=neither)": modes, "debug": debug})
				return
			}
			// every interface that gets a task also gets the link watcher's attention:
			// a link change must reach its task (found by shape: the server's
			// *netstate.Watcher and its map keyed by interface name)
			// (judged only when BuildTasks subscribes at all: a server that subscribes
			// later, when a task starts, has nothing to show here)
			if subs, ok := c20Subscribed(srv); ok && len(subs) > 0 {
				for _, ifi := range cfg.Interfaces {
					if (ifi.Advertise || ifi.Monitor) && !subs[ifi.Name] {
						r.Violation(id, "task-without-link-subscription", fmt.Sprintf("interface %s (advertise=%v monitor=%v) has a task but no subscription to link-state changes: the task cannot be told that its link went down", ifi.Name, ifi.Advertise, ifi.Monitor),
							map[string]any{"modes(0=advertise,1=monitor,2=neither)": modes, "debug": debug, "subscribed": fmt.Sprint(subs)})
						return
					}
				}
				r.Count("link_subscriptions_checked", 1)
			} else {
				r.Count("link_subscriptions_not_observable", 1)
			}
			if fmt.Sprint(got) != fmt.Sprint(want) {
				r.Violation(id, "task-list", fmt.Sprintf("tasks %q, want %q", got, want), map[string]any{"modes(0=advertise,1=monitor,2=neither)": modes, "debug": debug})
			}
			r.Nontrivial(id)
			if r.WantSample() && len(modes) == 3 {
				r.Sample(map[string]any{"modes(0=advertise,1=monitor,2=neither)": modes, "debug": debug, "tasks": got})
			}
		}
		for nif := 0; nif <= 3; nif++ {
			total := 1
			for i := 0; i < nif; i++ {
				total *= 3
			}
			for code := 0; code < total; code++ {
				modes := make([]int, nif)
				x := code
				for i := range modes {
					modes[i] = x % 3
					x /= 3
				}
				for _, dbg := range []bool{false, true} {
					check(fmt.Sprintf("build/%d/%d/%v", nif, code, dbg), modes, dbg)
				}
			}
		}
		for i, n := 0, r.Pick(300, 5000); i < n; i++ {
			modes := make([]int, 4+rr.Intn(3))
			for k := range modes {
				modes[k] = rr.Intn(3)
			}
			check(fmt.Sprintf("build/rand/%d", i), modes, rr.Intn(2) == 0)
		}
		return
	}

	if part == "serve" {
		c20StartupFailure(r)
		c20ServeAgain(r)
	}
	// part serve / race: scripted tasks under the real Serve
	dir, err := os.MkdirTemp("", "verif-c20-")
	if err != nil {
		t.Fatal(err)
	}
	defer os.RemoveAll(dir)
	rr := r.Rand("c20", part)
	n := r.Pick(400, 30000)
	if part == "race" {
		n = r.Pick(150, 1000)
	}
	stims := []string{"signal", "fail", "fail+signal", "signal+fail", "signal", "fail", "fail>signal", "signal+fail"}
	sigs := []string{"INT", "TERM", "HUP", "INT", "TERM", "HUP", "QUIT", "USR1", "HUP", "USR2", "ALRM", "HUP"} // whatever the daemon is told to listen for: anything but SIGHUP means terminate
	for i := 0; i < n; i++ {
		c := &c20Case{ID: fmt.Sprintf("serve/%d", i), Stim: stims[i%8], Sig: sigs[i/4%len(sigs)],
			ErrKind: []string{"plain", "canceled", "deadline", "closed", "eof"}[i/12%5]}
		k := 1 + rr.Intn(5)
		for j := 0; j < k; j++ {
			tc := struct{ Run, Stop, Ready string }{"block", "prompt", "now"}
			switch rr.Intn(6) {
			case 0:
				tc.Run = "early"
			case 1:
				tc.Stop = "slow"
			}
			switch rr.Intn(5) {
			case 0:
				tc.Ready = "gate"
			case 1:
				if rr.Intn(3) == 0 {
					tc.Ready = "never"
				} else {
					tc.Ready = "gate"
				}
			}
			c.Tasks = append(c.Tasks, tc)
		}
		c.FailJ = rr.Intn(k)
		c.Tasks[c.FailJ].Run = "fail"
		if c.Stim == "signal" {
			c.Tasks[c.FailJ].Run = "block"
			c.HoldLock = i%8 == 0
		}
		c.NotifyGone = i%7 == 3
		if c.NotifyGone {
			r.Count("cases_notify_socket_gone_after_ready", 1)
		}
		if !r.Mine(c.ID) {
			continue
		}
		r.Begin(c.ID)
		r.Nontrivial(c.ID)
		r.Count("stimulus_"+c.Stim, 1)
		if c.Stim != "signal" {
			r.Count("failure_error_"+c.ErrKind, 1)
		}
		c20Run(r, c, dir)
	}
	_ = errors.New
}

// c20Terminator locates, by shape rather than by name, the piece of Server state
// that records whether the last signal means terminate or reload: a struct (held
// by value or by pointer in a Server field) with exactly one bool or atomic.Bool
// and at most one mutex.  It returns a reader for the flag (taking the mutex
// when there is one) and the mutex itself (nil when the flag is atomic).  With
// neither found the terminate/reload oracles are skipped and counted: the
// driver still builds and runs against a Server that keeps this state otherwise.
func c20Terminator(srv *Server) (read func() bool, lock sync.Locker) {
	sv := reflect.ValueOf(srv).Elem()
	type cand struct {
		flag  reflect.Value
		lock  sync.Locker
		named bool
	}
	var best *cand
	for i := 0; i < sv.NumField(); i++ {
		v := sv.Field(i)
		for v.Kind() == reflect.Pointer {
			if v.IsNil() {
				break
			}
			v = v.Elem()
		}
		if v.Kind() != reflect.Struct || !v.CanAddr() {
			continue
		}
		var flags []reflect.Value
		var lk sync.Locker
		other := 0
		for j := 0; j < v.NumField(); j++ {
			f := v.Field(j)
			switch f.Type() {
			case reflect.TypeOf(false), reflect.TypeOf(atomic.Bool{}):
				flags = append(flags, f)
			case reflect.TypeOf(sync.Mutex{}):
				lk = (*sync.Mutex)(unsafe.Pointer(f.UnsafeAddr()))
			case reflect.TypeOf(sync.RWMutex{}):
				lk = (*sync.RWMutex)(unsafe.Pointer(f.UnsafeAddr()))
			default:
				other++
			}
		}
		if len(flags) != 1 || other != 0 {
			continue
		}
		c := &cand{flag: flags[0], lock: lk, named: strings.Contains(strings.ToLower(v.Type().Name()), "term")}
		if best == nil || c.named && !best.named {
			best = c
		}
	}
	if best == nil {
		return nil, nil
	}
	f, lk := best.flag, best.lock
	if f.Type() == reflect.TypeOf(false) {
		p := (*bool)(unsafe.Pointer(f.UnsafeAddr()))
		return func() bool {
			if lk != nil {
				lk.Lock()
				defer lk.Unlock()
			}
			return *p
		}, lk
	}
	p := (*atomic.Bool)(unsafe.Pointer(f.UnsafeAddr()))
	return p.Load, nil
}

func c20TerminatorLock(srv *Server) sync.Locker {
	_, lk := c20Terminator(srv)
	return lk
}

// c20TerminateFunc is what a task would be given to ask "terminate or reload?".
func c20TerminateFunc(r *vlib.Run, srv *Server) func() bool {
	if rd, _ := c20Terminator(srv); rd != nil {
		return rd
	}
	r.Count("terminate_flag_not_found", 1)
	return nil
}

// c20Starved distinguishes a hung Serve from one that is merely not being
// scheduled: it returns a reason when Serve returns within ten more seconds or
// when, in either of two goroutine dumps ten seconds apart, a goroutine with
// CoreRAD's (non-test) code on its stack is runnable or running.  A genuine
// hang has every such goroutine parked in both.
func c20Starved(done <-chan struct{}) string {
	busy := func() int {
		buf := make([]byte, 4<<20)
		buf = buf[:runtime.Stack(buf, true)]
		n := 0
		for _, g := range strings.Split(string(buf), "\n\n") {
			if !strings.Contains(g, "corerad/internal/corerad.") && !strings.Contains(g, "corerad/internal/system.") {
				continue
			}
			head := g
			if i := strings.IndexByte(g, '\n'); i >= 0 {
				head = g[:i]
			}
			if strings.Contains(head, "[running") || strings.Contains(head, "[runnable") || strings.Contains(head, "[syscall") {
				// the goroutine taking the dump is this test's, inside package corerad too
				if !strings.Contains(g, "c20Starved") {
					n++
				}
			}
		}
		return n
	}
	b1 := busy()
	select {
	case <-done:
		return "it returned within the next 10 s: the machine is overloaded"
	case <-time.After(10 * time.Second):
	}
	b2 := busy()
	if b1 > 0 || b2 > 0 {
		return fmt.Sprintf("goroutines of the server are runnable (%d, then %d) rather than parked: starved of CPU, not hung", b1, b2)
	}
	return ""
}

// c20StartupFailure: a task fails at once, while the server is still starting
// its tasks (the signal watcher may not even be running yet), and a terminating
// signal arrives right after the cancellation the failure caused - sent by a
// task the moment it observes that cancellation, so the failure strictly
// precedes the signal.  Whether or not the signal watcher still picks the signal
// up, serving returns the failure.
func c20StartupFailure(r *vlib.Run) {
	rounds := r.Pick(120, 1500)
	for i := 0; i < rounds; i++ {
		id := fmt.Sprintf("startup-failure/%d", i)
		if !r.Mine(id) {
			continue
		}
		r.Begin(id)
		r.Nontrivial(id)
		lg := &c20Log{}
		procs := []int{1, 1, 2, 0}[i%4]
		idle := []int{0, 8, 64}[i/4%3]
		sig := []os.Signal{syscall.SIGTERM, os.Interrupt, syscall.SIGHUP}[i%3]
		sigC := make(chan os.Signal, 1)
		srv := NewServer(NewContext(log.New(io.Discard, "", 0), nil, system.TestState{}))
		mk := func(name, run string) *c20Task {
			return &c20Task{name: name, run: run, stop: "prompt", ready: "now", lg: lg,
				readyC: make(chan struct{}), trigger: make(chan struct{}), stopGate: make(chan struct{}), err: fmt.Errorf("boom-at-startup")}
		}
		failer := mk("failing", "fail")
		close(failer.trigger) // fails as soon as it runs
		relay := mk("relay", "block")
		relay.onCancel = func() { lg.add("signal relayed"); sigC <- sig }
		tasks := []Task{failer, relay}
		for k := 0; k < idle; k++ {
			tasks = append(tasks, mk(fmt.Sprintf("idle%d", k), "block"))
		}
		var serveErr error
		done := make(chan struct{})
		func() {
			if procs > 0 {
				defer runtime.GOMAXPROCS(runtime.GOMAXPROCS(procs))
			}
			go func() {
				serveErr = srv.Serve(sigC, nil, tasks)
				close(done)
			}()
			select {
			case <-done:
			case <-time.After(40 * time.Second):
			}
		}()
		select {
		case <-done:
		default:
			if why := c20Starved(done); why != "" {
				r.Inconclusive(id, "Serve had not returned 40 s after a task failed at startup, but "+why)
			} else {
				r.Violation(id, "serve-hung", "Serve had not returned 40 s after a task failed at startup", map[string]any{"log": lg.snapshot()})
			}
			continue
		}
		picked := len(sigC) == 0 && lg.has("signal relayed")
		if picked {
			r.Count("signal_after_failure_picked_up_by_watcher", 1)
		}
		if serveErr == nil || !strings.Contains(serveErr.Error(), "boom-at-startup") {
			r.Violation(id, "failure-not-reported", fmt.Sprintf("a task failed with boom-at-startup before %v arrived, but Serve returned %v (signal picked up by the watcher: %v)", sig, serveErr, picked),
				map[string]any{"processors": procs, "idle_tasks": idle, "log": lg.snapshot()})
			continue
		}
		r.Count("startup_failures_reported", 1)
	}
}

// c20Subscribed reports for which interface names the server's link watcher has
// subscribers.  The watcher is the field of type *netstate.Watcher, its
// subscriptions the one map keyed by string (read-only reflection; no names).
func c20Subscribed(srv *Server) (map[string]bool, bool) {
	sv := reflect.ValueOf(srv).Elem()
	for i := 0; i < sv.NumField(); i++ {
		f := sv.Field(i)
		if f.Type() != reflect.TypeOf((*netstate.Watcher)(nil)) || f.IsNil() {
			continue
		}
		w := f.Elem()
		for j := 0; j < w.NumField(); j++ {
			m := w.Field(j)
			if m.Kind() == reflect.Map && m.Type().Key().Kind() == reflect.String {
				out := map[string]bool{}
				for _, k := range m.MapKeys() {
					if m.MapIndex(k).Len() > 0 {
						out[k.String()] = true
					}
				}
				return out, true
			}
		}
	}
	return nil, false
}

// c20ServeAgain: one Server serves several times in a row (a supervisor loop
// around Serve), each time stopped by another signal: what a task reads about
// terminate-or-reload when it observes the cancellation is the decision of THIS
// run's signal, not a leftover of an earlier run.
func c20ServeAgain(r *vlib.Run) {
	seqs := [][]os.Signal{
		{syscall.SIGHUP, syscall.SIGTERM, syscall.SIGHUP, os.Interrupt},
		{syscall.SIGTERM, syscall.SIGHUP, syscall.SIGHUP, syscall.SIGTERM},
		{os.Interrupt, syscall.SIGTERM, syscall.SIGHUP},
	}
	for si, seq := range seqs {
		id := fmt.Sprintf("serve-again/%d", si)
		if !r.Mine(id) {
			continue
		}
		r.Begin(id)
		r.Nontrivial(id)
		srv := NewServer(NewContext(log.New(io.Discard, "", 0), nil, system.TestState{}))
		term := c20TerminateFunc(r, srv)
		for k, sig := range seq {
			lg := &c20Log{}
			task := &c20Task{name: "task", run: "block", stop: "prompt", ready: "now", lg: lg, term: term,
				readyC: make(chan struct{}), trigger: make(chan struct{}), stopGate: make(chan struct{})}
			sigC := make(chan os.Signal, 1)
			done := make(chan error, 1)
			go func() { done <- srv.Serve(sigC, nil, []Task{task}) }()
			if !c20WaitFor(func() bool { return lg.has("run_enter task") }, 5*time.Second) {
				r.Inconclusive(id, "the task did not start within 5 s")
				break
			}
			sigC <- sig
			var err error
			select {
			case err = <-done:
			case <-time.After(40 * time.Second):
				r.Inconclusive(id, "Serve had not returned 40 s after the signal")
				return
			}
			want := fmt.Sprint(sig != syscall.SIGHUP)
			if err != nil || !lg.has("terminate_read_after task "+want) {
				r.Violation(id, "terminate-flag-late", fmt.Sprintf("run %d of the same server, stopped by %v: Serve returned %v and the task read %q after the cancellation (want terminate=%s)", k+1, sig, err, lg.snapshot(), want),
					map[string]any{"signals": fmt.Sprint(seq)})
				break
			}
			r.Count("repeated_serve_runs_checked", 1)
		}
	}
}
