//go:build verif

package corerad

import (
	"fmt"
	"math/rand"
	"net/netip"
	"sort"
	"strings"
	"sync"
	"testing"
	"time"

	"github.com/mdlayher/ndp"
	"verif.local/model"
	"verif.local/vfake"
	"verif.local/vlib"
)

// TestVerifC12Handle — the reporting side of C12 on a running advertiser:
// every inconsistency is logged and counted once under its labels, and the
// hook fires iff there is at least one.
func TestVerifC12Handle(t *testing.T) {
	r := vlib.Start("C12", vPart("handle"))
	defer r.Finish()
	rr := r.Rand("c12", "handle")
	n := r.Pick(200, 100000)
	for i := 0; i < n; i++ {
		id := fmt.Sprintf("handle/%d", i)
		seed := rr.Int63()
		if !r.Mine(id) {
			continue
		}
		sr := rand.New(rand.NewSource(seed))
		// our configuration: static options of every kind the check looks at
		d := vBaseDoc(20*time.Second, 30*time.Second)
		f := &d.Ifaces[0]
		f.Managed, f.OtherConfig = model.B(sr.Intn(2) == 0), model.B(sr.Intn(2) == 0)
		f.HopLimit = model.I([]int64{64, 255, 64}[sr.Intn(3)])
		if sr.Intn(2) == 0 {
			f.ReachableTime = model.D(int64(30 * time.Second))
		}
		if sr.Intn(2) == 0 {
			f.RetransmitTimer = model.D(int64(time.Second))
		}
		if sr.Intn(2) == 0 {
			f.MTU = model.I(1500)
		}
		f.Prefixes = append(f.Prefixes, model.PrefixSt{Prefix: model.MkCIDR("2001:db8:1::/64"), Valid: model.D(int64(24 * time.Hour)), Preferred: model.D(int64(4 * time.Hour))})
		f.Routes = []model.RouteSt{{Prefix: model.MkCIDR("2001:db8:ffff::/48"), Lifetime: model.D(int64(time.Hour))}, {Prefix: model.MkCIDR("2001:db8:eeee::/64"), Preference: model.S("high"), Lifetime: model.D(int64(time.Hour))}}
		f.RDNSS = []model.RDNSSSt{{Lifetime: model.D(int64(time.Hour)), Servers: []model.Server{model.MkServer("2001:db8::53")}}}
		f.DNSSL = []model.DNSSLSt{{Lifetime: model.D(int64(time.Hour)), Names: []string{"example.com"}}}
		if sr.Intn(2) == 0 {
			// names are advertised as configured, letter case included
			f.DNSSL = []model.DNSSLSt{{Lifetime: model.D(int64(time.Hour)), Names: []string{"Corp.Example.COM", "lan.example.net"}}}
		}
		if sr.Intn(2) == 0 {
			f.CaptivePortal, f.CaptivePortalNorm, f.CaptivePortalOK = model.S("https://portal.example/a"), "https://portal.example/a", model.Yes
		}
		// our own RA is not static: a deprecated prefix and route count down, so the
		// RA a peer is compared with must be the one built at that moment
		moving := sr.Intn(2) == 0
		if moving {
			f.Prefixes = append(f.Prefixes, model.PrefixSt{Prefix: model.MkCIDR("2001:db8:dead::/64"), Deprecated: model.B(true), Valid: model.D(int64(30 * time.Hour)), Preferred: model.D(int64(28 * time.Hour))})
			f.Routes = append(f.Routes, model.RouteSt{Prefix: model.MkCIDR("2001:db8:beef::/48"), Deprecated: model.B(true), Lifetime: model.D(int64(29 * time.Hour))})
		}
		ifi, exp, err := vParseOne(d)
		if err != nil {
			r.Violation(id, "harness", err.Error(), nil)
			continue
		}
		r.Begin(id)
		r.Nontrivial(id)
		nmsg := 4 + sr.Intn(10)
		var viol, cls string
		var det map[string]any
		var ev []vfake.Event
		pm := vBubble(t, func() {
			h := vNewH(ifi, exp, time.Duration(sr.Int63n(1e9)))
			var mu sync.Mutex
			var hookOurs []*ndp.RouterAdvertisement
			h.startAdvertiser()
			h.adv.OnInconsistentRA = func(ours, _ *ndp.RouterAdvertisement) {
				mu.Lock()
				hookOurs = append(hookOurs, ours)
				mu.Unlock()
			}
			time.Sleep(4 * time.Second)
			h.settle()
			ours, _, oerr := ifi.RouterAdvertisement(true)
			if oerr != nil {
				viol, cls = "cannot build our RA: "+oerr.Error(), "harness"
				return
			}
			var older []*ndp.RouterAdvertisement
			shadow := map[string]float64{}
			for k := 0; k < nmsg && viol == ""; k++ {
				if moving {
					// let the countdown move, then rebuild what "ours" is right now
					time.Sleep(time.Duration(1+sr.Intn(20)) * time.Minute)
					// continue at a whole second of the clock: the epoch and the configured
					// lifetimes are whole seconds, so the remaining lifetimes are too and
					// survive the wire round trip unchanged
					time.Sleep(time.Until(time.Now().Truncate(time.Second).Add(time.Second)))
					h.settle()
					older = append(older, ours)
					ours, _, oerr = ifi.RouterAdvertisement(true)
					if oerr != nil {
						viol, cls = "cannot build our RA: "+oerr.Error(), "harness"
						return
					}
				}
				var theirs *ndp.RouterAdvertisement
				if moving && len(older) > 0 && sr.Intn(3) == 0 {
					// a peer that still advertises what we advertised some minutes ago
					theirs, _ = vRoundTrip(older[sr.Intn(len(older))])
				} else {
					switch sr.Intn(4) {
					case 0: // our own RA after a wire round trip: nothing to report
						theirs, _ = vRoundTrip(ours)
					case 1: // our RA with one or two fields perturbed
						theirs, _ = vRoundTrip(ours)
						if theirs != nil {
							switch sr.Intn(5) {
							case 0:
								theirs.CurrentHopLimit = 33
							case 1:
								theirs.ManagedConfiguration = !theirs.ManagedConfiguration
							case 2:
								for _, o := range theirs.Options {
									if p, ok := o.(*ndp.PrefixInformation); ok {
										p.ValidLifetime = 12 * time.Hour
									}
								}
							case 3:
								for _, o := range theirs.Options {
									if p, ok := o.(*ndp.RecursiveDNSServer); ok {
										p.Lifetime = 2 * time.Hour
										p.Servers = append(p.Servers, netip.MustParseAddr("fd00::53"))
									}
								}
							case 4:
								for _, o := range theirs.Options {
									if p, ok := o.(*ndp.RouteInformation); ok {
										p.RouteLifetime = 7 * time.Hour
									}
								}
							}
							theirs, _ = vRoundTrip(theirs)
						}
					default:
						theirs, _ = vRoundTrip(vRandomRA(sr))
					}
				}
				if theirs == nil {
					continue
				}
				want, dc := vExpectedProblems(ours, theirs)
				if dc {
					continue
				}
				mu.Lock()
				hooksBefore := len(hookOurs)
				mu.Unlock()
				logsBefore := len(h.tr.Events())
				h.deliver(vfake.In{Msg: theirs, Hop: 255, From: netip.MustParseAddr(fmt.Sprintf("fe80::%x", 0x50+k))})
				time.Sleep(time.Millisecond)
				h.settle()
				mu.Lock()
				fired := len(hookOurs) - hooksBefore
				mu.Unlock()
				for _, w := range want {
					fd := strings.SplitN(w, "|", 2)
					shadow["interface=veth0,details="+fd[1]+",field="+fd[0]]++
				}
				det = map[string]any{"ours": model.FromNDP(ours), "theirs": model.FromNDP(theirs), "expected_problems": want}
				if (fired == 1) != (len(want) > 0) || fired > 1 {
					viol, cls = fmt.Sprintf("the notification hook fired %d times for an RA with %d expected inconsistencies", fired, len(want)), "hook"
					break
				}
				// log lines
				nHeader, nItems := 0, 0
				var items []string
				for _, e := range h.tr.Events()[logsBefore:] {
					if e.Kind != "log" {
						continue
					}
					if strings.Contains(e.Msg, "inconsistencies detected in router advertisement") {
						nHeader++
					}
					if strings.Contains(e.Msg, ": inconsistency ") {
						nItems++
						items = append(items, e.Msg)
					}
				}
				if nItems != len(want) || (nHeader == 1) != (len(want) > 0) || nHeader > 1 {
					viol, cls = fmt.Sprintf("%d inconsistency log lines (+%d header) for %d expected inconsistencies", nItems, nHeader, len(want)), "log"
					break
				}
				// each inconsistency has a line of its own that names its field and, when
				// it has them, its details (the prefix or route it is about) - and no
				// line names the details of another inconsistency of this RA
				var allDetails []string
				for _, w := range want {
					if fd := strings.SplitN(w, "|", 2); fd[1] != "" {
						allDetails = append(allDetails, fd[1])
					}
				}
				used := make([]bool, len(items))
				for _, w := range want {
					fd := strings.SplitN(w, "|", 2)
					found := false
					for li, line := range items {
						if used[li] || !strings.Contains(line, fd[0]) {
							continue
						}
						ok := true
						if fd[1] != "" {
							ok = strings.Contains(line, fd[1])
						} else {
							for _, d := range allDetails {
								if strings.Contains(line, "("+d+")") {
									ok = false
								}
							}
						}
						if ok {
							used[li], found = true, true
							break
						}
					}
					if !found {
						viol, cls = fmt.Sprintf("no log line reports the inconsistency %q under its own field and details; the lines are %q", w, items), "log-labels"
						break
					}
				}
				if viol != "" {
					break
				}
				// examining a peer's RA must leave our own untouched: the RA the
				// configuration calls for now is still what it was
				if mine, _, merr := ifi.RouterAdvertisement(true); merr != nil {
					viol, cls = "our RA can no longer be built after a peer's RA was examined: "+merr.Error(), "own-ra-altered"
					break
				} else if dd := model.DiffRA(h.expectRA(true, false), model.FromNDP(mine)); dd != "" {
					viol, cls = "after a peer's RA was examined our own RA differs from what the configuration calls for: "+dd, "own-ra-altered"
					break
				}
				r.Count("own_ra_rechecked_after_peer_ra", 1)
				all, _ := h.mm.Series()
				got := all[advInconsistencies].Samples
				if dd := vDiffSamples(shadow, got); dd != "" {
					viol, cls = "inconsistency counters differ from the expected multiset: "+dd, "counter"
					break
				}
				if len(want) > 0 {
					r.Count("inconsistent_ras_delivered", 1)
				} else {
					r.Count("consistent_ras_delivered", 1)
				}
			}
			h.stop(false)
			h.waitRun(vWatchdog)
			ev = h.tr.Events()
		})
		if pm != "" && !strings.Contains(pm, "blocked goroutines remain") {
			r.Violation(id, "bubble-panic", pm, nil)
			continue
		}
		if viol != "" {
			if det == nil {
				det = map[string]any{}
			}
			det["seed"] = seed
			r.Violation(id, "report:"+cls, viol, det)
			continue
		}
		if r.WantSample() {
			var lines []string
			for _, e := range ev {
				if e.Kind == "log" && strings.Contains(e.Msg, "inconsisten") {
					lines = append(lines, e.Msg)
				}
			}
			sort.Strings(lines)
			if len(lines) > 10 {
				lines = lines[:10]
			}
			r.Sample(map[string]any{"id": id, "messages": nmsg, "log_excerpt": lines})
		}
	}
}
