//go:build verif

package corerad

import (
	"errors"
	"fmt"
	"math/rand"
	"net"
	"net/netip"
	"strings"
	"sync"
	"sync/atomic"
	"testing"
	"time"

	"github.com/mdlayher/corerad/internal/config"
	"github.com/mdlayher/corerad/internal/system"
	"verif.local/model"
	"verif.local/vfake"
	"verif.local/vlib"
)

// c17Doc draws an accepted one-interface advertising document covering every
// stanza kind; wild reports whether it contains a wildcard stanza.
func c17Doc(rr *rand.Rand, allowWild bool) (d model.Doc, exp *model.ExpIface, wild, deprecated bool) {
	g := &model.Gen{R: rr, ValidOnly: true}
	for tries := 0; tries < 200; tries++ {
		f := g.Iface()
		if f.Advertise == nil || !*f.Advertise || (f.Monitor != nil && *f.Monitor) {
			continue
		}
		f.Name = model.S("veth0")
		if rr.Intn(2) == 0 && len(f.PREF64) == 0 {
			f.PREF64 = []model.PREF64St{{}}
		}
		d = model.Doc{Ifaces: []model.Iface{f}}
		switch rr.Intn(4) {
		case 0: // a monitoring interface next to the advertising one
			d.Ifaces = append(d.Ifaces, model.Iface{Name: model.S("mon0"), Monitor: model.B(true)})
		case 1: // an interface that neither advertises nor monitors
			d.Ifaces = append(d.Ifaces, model.Iface{Name: model.S("idle0"), HopLimit: model.I(7)})
		}
		d.Debug = &model.Debug{Address: model.S("127.0.0.1:0"), AddrValid: model.Yes, Prometheus: rr.Intn(4) != 0, PProf: rr.Intn(3) == 0}
		tri, e, _ := model.Expect(&d)
		if tri != model.Yes {
			continue
		}
		exp = &e.Ifaces[0]
		wild, deprecated = false, false
		ident := map[string]bool{}
		dup := false
		for _, p := range exp.Plugins {
			if p.Auto {
				wild = true
			}
			if p.Deprecated {
				deprecated = true
			}
			var k string
			switch p.Kind {
			case "prefix", "route":
				k = fmt.Sprintf("%s %v/%d %v", p.Kind, p.Addr, p.Bits, p.Auto)
			case "rdnss":
				k = fmt.Sprintf("rdnss %v %v", p.Servers, p.Auto)
			case "dnssl":
				k = "dnssl " + strings.Join(p.Names, ",")
			case "pref64":
				k = fmt.Sprintf("pref64 %v/%d", p.Addr, p.Bits)
			default:
				continue
			}
			if ident[k] {
				dup = true
			}
			ident[k] = true
		}
		_ = dup // identical stanzas are part of the workload since F17 was repaired
		if wild && !allowWild {
			continue
		}
		return d, exp, wild, deprecated
	}
	panic("c17Doc: no acceptable document drawn")
}

type c17Obs struct {
	point   string
	scrape  map[string]float64
	serr    error
	apiCode int
	apiBody string
	metCode int
	ppCode  int
	lastRA  *model.RA // last RA transmitted by the advertiser (nil before init)
	now     time.Time
}

// c17Observe performs one scrape, one API request and the two gated routes.
func c17Observe(r *vlib.Run, id, point string, p *vProm, h *vH) (o c17Obs, ok bool) {
	o.point = point
	o.now = time.Now()
	ok = r.Guard(id, "panic:"+point, func() {
		o.scrape, o.serr = p.gather()
		o.apiCode, o.apiBody = p.get("/_/api/interfaces")
		o.metCode, _ = p.get("/metrics")
		o.ppCode, _ = p.get("/debug/pprof/")
	})
	if h != nil {
		for _, e := range h.tr.Events() {
			if e.Kind == "write_begin" && e.RA != nil {
				ra := *e.RA
				o.lastRA = &ra
			}
		}
	}
	return o, ok
}

// c17Judge compares an observation with the expected RA.  preInit allows an
// error for the scrape / request as the acceptable alternative.
func c17Judge(r *vlib.Run, id string, o c17Obs, cfg *config.Config, want model.RA, wantAlt *model.RA, preInit bool, fwd bool, det map[string]any) bool {
	fail := func(cls, msg string) bool {
		d := map[string]any{"lifecycle_point": o.point}
		for k, v := range det {
			d[k] = v
		}
		r.Violation(id, cls+"@"+o.point, msg, d)
		return false
	}
	wantMet, wantPP := 404, 404
	if cfg.Debug.Prometheus {
		wantMet = 200
	}
	if cfg.Debug.PProf {
		wantPP = 200
	}
	if o.metCode != wantMet && !(preInit && o.metCode == 500 && wantMet == 200) {
		return fail("route-gating", fmt.Sprintf("/metrics answered %d, want %d (debug.prometheus=%v)", o.metCode, wantMet, cfg.Debug.Prometheus))
	}
	if o.ppCode != wantPP {
		return fail("route-gating", fmt.Sprintf("/debug/pprof/ answered %d, want %d (debug.pprof=%v)", o.ppCode, wantPP, cfg.Debug.PProf))
	}
	name := cfg.Interfaces[0].Name
	alts := []model.RA{want}
	if wantAlt != nil {
		alts = append(alts, *wantAlt)
	}
	// scrape
	if o.serr != nil {
		if !preInit {
			return fail("scrape-error", "scrape failed on an initialised interface: "+o.serr.Error())
		}
		r.Count("preinit_scrape_errors", 1)
	} else {
		var lastDiff string
		okAny := false
		for _, w := range alts {
			ws := vExpectedSamples(name, w)
			ws["corerad_interface_advertising{interface="+name+"}"] = 1
			ws["corerad_interface_monitoring{interface="+name+"}"] = 0
			ws["corerad_interface_forwarding{interface="+name+"}"] = float64(b2i(fwd))
			ws["corerad_interface_autoconfiguration{interface="+name+"}"] = o.scrape["corerad_interface_autoconfiguration{interface="+name+"}"]
			if !fwd && cfg.Interfaces[0].DefaultLifetime != 0 {
				ws["corerad_advertiser_misconfiguration{details=interface_not_forwarding,interface="+name+"}"] = 1
			}
			if lastDiff = vDiffSamples(ws, vConstOnly(o.scrape, name)); lastDiff == "" {
				okAny = true
				break
			}
		}
		if !okAny {
			return fail("scrape-content", "scrape does not mirror the RA: "+lastDiff)
		}
		// interfaces that do not advertise: only the four per-interface gauges
		for _, other := range cfg.Interfaces[1:] {
			on := other.Name
			ws := map[string]float64{
				"corerad_interface_advertising{interface=" + on + "}": float64(b2i(other.Advertise)),
				"corerad_interface_monitoring{interface=" + on + "}":  float64(b2i(other.Monitor)),
				"corerad_interface_forwarding{interface=" + on + "}":  0,
			}
			ws["corerad_interface_autoconfiguration{interface="+on+"}"] = o.scrape["corerad_interface_autoconfiguration{interface="+on+"}"]
			if other.Advertise {
				continue
			}
			if d := vDiffSamples(ws, vConstOnly(o.scrape, on)); d != "" {
				return fail("scrape-content", "samples of the non-advertising interface "+on+": "+d)
			}
			r.Count("non_advertising_interfaces_compared", 1)
		}
		r.Count("scrapes_compared", 1)
	}
	// API
	switch {
	case o.apiCode == 200:
		list, err := vAPIInterfaces(o.apiBody)
		if err != nil || len(list) != len(cfg.Interfaces) {
			return fail("api-body", fmt.Sprintf("API body undecodable (%v) or %d interfaces for %d configured", err, len(list), len(cfg.Interfaces)))
		}
		for k, other := range cfg.Interfaces {
			if list[k]["interface"] != other.Name || list[k]["advertise"] != other.Advertise {
				return fail("api-content", fmt.Sprintf("API entry %d is %v/%v, configured %s advertise=%v", k, list[k]["interface"], list[k]["advertise"], other.Name, other.Advertise))
			}
			if !other.Advertise && list[k]["advertisement"] != nil {
				return fail("api-content", "a non-advertising interface carries an advertisement in the API")
			}
		}
		adv, _ := list[0]["advertisement"].(map[string]any)
		var lastDiff string
		okAny := false
		for _, w := range alts {
			if lastDiff = vJSONDiff("advertisement", vExpectedAPI(w), adv, map[string]bool{"pref64": true}); lastDiff == "" {
				okAny = true
				// every option kind must be rendered: PREF64 too
				for _, op := range w.Options {
					if op.Kind == "pref64" && !strings.Contains(o.apiBody, op.Prefix) {
						okAny, lastDiff = false, "the PREF64 option "+op.Prefix+" is not rendered"
					}
				}
				if okAny {
					break
				}
			}
		}
		if !okAny {
			return fail("api-content", "debug API does not mirror the RA: "+lastDiff)
		}
		r.Count("api_responses_compared", 1)
	case o.apiCode == 500 && preInit:
		r.Count("preinit_api_errors", 1)
	default:
		return fail("api-status", fmt.Sprintf("debug API answered %d: %s", o.apiCode, strings.TrimSpace(o.apiBody)))
	}
	return true
}

func c17LoIndex() int {
	if ifi, err := net.InterfaceByName("lo"); err == nil {
		return ifi.Index
	}
	return 1
}

// TestVerifC17 — metrics and the debug API are always answerable and mirror
// the current RA.
func TestVerifC17(t *testing.T) {
	part := vPart("life")
	r := vlib.Start("C17", part)
	defer r.Finish()
	if part == "race" {
		c17Race(t, r)
		return
	}
	rr := r.Rand("c17", part)
	if part == "life" {
		c17Duplicates(r)
	}
	n := r.Pick(300, 15000)
	for i := 0; i < n; i++ {
		id := fmt.Sprintf("cfg/%d", i)
		seed := rr.Int63()
		if !r.Mine(id) {
			continue
		}
		sr := rand.New(rand.NewSource(seed))
		doc, exp, wild, depr := c17Doc(sr, true)
		text := doc.TOML()
		fwd := sr.Intn(3) != 0
		stateFail := sr.Intn(5) == 0
		r.Begin(id)
		r.Nontrivial(text)
		cfg, err := config.Parse(strings.NewReader(text), vEpoch)
		if err != nil {
			r.Violation(id, "harness", "document rejected: "+err.Error(), map[string]any{"toml": text})
			continue
		}
		det := map[string]any{"toml": text, "forwarding": fwd, "wildcard": wild, "deprecated": depr}
		if wild {
			r.Count("configs_with_wildcards", 1)
		}
		if depr {
			r.Count("configs_with_deprecated", 1)
		}
		for _, p := range exp.Plugins {
			if p.Kind == "pref64" {
				r.Count("configs_with_pref64", 1)
				break
			}
		}
		bad := false
		pm := vBubble(t, func() {
			h := vNewH(cfg.Interfaces[0], exp, time.Duration(sr.Int63n(1e9)))
			h.st.SetForwarding("veth0", fwd)
			prom := vNewProm(h.st, *cfg, nil)
			expect := func(mac bool) model.RA {
				sys := &model.Sys{}
				if mac {
					sys.MAC = vMAC
				}
				ra, _, _ := model.ExpectedRA(exp, sys, fwd, vEpoch, time.Now())
				return ra
			}
			// L0: never initialised.  For static configurations the RA without a
			// link-layer address (nothing is known about the link yet) or with it.
			o, ok := c17Observe(r, id, "never-initialised", prom, nil)
			if !ok {
				bad = true
				return
			}
			w0 := expect(false)
			if !wild && !c17Judge(r, id, o, cfg, w0, nil, true, fwd, det) {
				bad = true
				return
			}
			if wild {
				// content is undetermined before the interface is known; only
				// "no crash, answers or errors" is required here
				if o.apiCode != 200 && o.apiCode != 500 {
					r.Violation(id, "api-status@never-initialised", fmt.Sprintf("debug API answered %d", o.apiCode), det)
					bad = true
					return
				}
				// An answer instead of an error claims to be the RA that would be sent:
				// whatever the wildcards expand to, its header (router lifetime 0 when the
				// interface does not forward) and the options no wildcard touches are
				// determined by the configuration alone.
				if o.apiCode == 200 {
					list, err := vAPIInterfaces(o.apiBody)
					adv, _ := map[string]any(nil), error(nil)
					if err == nil && len(list) > 0 {
						adv, _ = list[0]["advertisement"].(map[string]any)
					}
					if adv != nil {
						wa := vExpectedAPI(w0)
						bad0 := ""
						for k, v := range wa {
							if k == "options" {
								continue
							}
							if d := vJSONDiff("advertisement."+k, v, adv[k], nil); d != "" {
								bad0 = d
							}
						}
						wo, _ := wa["options"].(map[string]any)
						goo, _ := adv["options"].(map[string]any)
						for _, k := range []string{"dnssl", "mtu", "captive_portal"} {
							if v, ok := wo[k]; ok && v != nil && v != 0.0 && v != "" {
								if l, isList := v.([]any); isList && len(l) == 0 {
									continue
								}
								if d := vJSONDiff("advertisement.options."+k, v, goo[k], nil); d != "" {
									bad0 = d
								}
							}
						}
						if bad0 != "" {
							d := map[string]any{"lifecycle_point": "never-initialised", "api_body": o.apiBody}
							for kk, v := range det {
								d[kk] = v
							}
							r.Violation(id, "api-content@never-initialised", "the debug API answered for an interface whose wildcards cannot be expanded yet, and what it reports is not the RA that would be sent: "+bad0, d)
							bad = true
							return
						}
						r.Count("preinit_wildcard_api_answers_checked", 1)
					}
				}
				// A scrape that reports no error claims to be complete: every
				// configured interface must then at least carry its four state
				// gauges (their values do not depend on the wildcard content).
				if o.serr == nil {
					for _, ifc := range cfg.Interfaces {
						for _, g := range []string{"advertising", "monitoring", "forwarding", "autoconfiguration"} {
							k := "corerad_interface_" + g + "{interface=" + ifc.Name + "}"
							if _, ok := o.scrape[k]; !ok {
								d := map[string]any{"lifecycle_point": "never-initialised", "missing": k}
								for kk, v := range det {
									d[kk] = v
								}
								r.Violation(id, "scrape-silently-incomplete@never-initialised", "the scrape reported no error but lacks "+k+" (neither an error nor the current state)", d)
								bad = true
								return
							}
						}
					}
					r.Count("preinit_wildcard_complete_scrapes", 1)
				} else {
					r.Count("preinit_scrape_errors", 1)
				}
				r.Count("preinit_wildcard_observations", 1)
			}
			// L1: initialising — the dial is held open by a gate.
			gate := make(chan struct{})
			var held atomic.Bool
			h.dialErr = func(k int) error {
				if k == 0 || k == 2 {
					held.Store(true)
					<-gate
					held.Store(false)
				}
				if k == 1 {
					return fmt.Errorf("still not ready: %w", system.ErrLinkNotReady)
				}
				return nil
			}
			if wild {
				// wildcard plugins query the kernel: give them a real interface
				h.ifIndex = c17LoIndex()
			}
			h.startAdvertiser()
			h.settle()
			if !held.Load() {
				r.Violation(id, "harness", "dial gate not reached", det)
				bad = true
				return
			}
			o, ok = c17Observe(r, id, "initialising", prom, nil)
			if !ok {
				bad = true
				return
			}
			if !wild && !c17Judge(r, id, o, cfg, w0, nil, true, fwd, det) {
				bad = true
				return
			}
			close(gate)
			gate = make(chan struct{})
			time.Sleep(100 * time.Millisecond)
			h.settle()
			select {
			case <-h.runDone:
				if wild {
					r.Count("wildcard_init_failed_in_this_environment", 1)
					return
				}
				r.Violation(id, "harness", fmt.Sprintf("advertiser ended during initialisation: %v", h.runErr), det)
				bad = true
				return
			default:
			}
			// L2: initialised.
			if stateFail && seed%2 == 0 {
				// only the autoconfiguration read fails: the scrape must fail too
				// (the API does not read that value)
				h.st.AutoErr = func(int, string) error { return errors.New("verif: sysctl read failed") }
				o, ok = c17Observe(r, id, "autoconf-read-failure", prom, h)
				h.st.AutoErr = nil
				if !ok {
					bad = true
					return
				}
				if o.serr == nil {
					r.Violation(id, "state-failure-hidden@autoconf-read-failure", "with the autoconfiguration state unreadable the scrape reported no error (an invented value was exported)", det)
					bad = true
					return
				}
				r.Count("state_failure_observations", 1)
			} else if stateFail {
				h.st.FwdErr = func(int, string) error { return errors.New("verif: sysctl read failed") }
				o, ok = c17Observe(r, id, "state-read-failure", prom, h)
				h.st.FwdErr = nil
				if !ok {
					bad = true
					return
				}
				if o.serr == nil || o.apiCode != 500 {
					r.Violation(id, "state-failure-hidden@state-read-failure", fmt.Sprintf("with the forwarding state unreadable the scrape error is %v and the API answered %d", o.serr, o.apiCode), det)
					bad = true
					return
				}
				r.Count("state_failure_observations", 1)
			}
			time.Sleep(time.Duration(sr.Int63n(int64(3 * time.Hour))))
			o, ok = c17Observe(r, id, "initialised", prom, h)
			if !ok {
				bad = true
				return
			}
			want := expect(true)
			if wild {
				if o.lastRA == nil {
					return
				}
				want = *o.lastRA
				// the transmitted RA is older than the scrape only in its
				// deprecated lifetimes; wildcard configurations with deprecated
				// stanzas are compared on structure by regenerating below
				if depr {
					return
				}
			}
			if !c17Judge(r, id, o, cfg, want, nil, false, fwd, det) {
				bad = true
				return
			}
			// C01 on the wire: for static, non-deprecated configurations every RA
			// the advertiser transmitted so far is exactly the expected one
			if !wild && !depr {
				for _, e := range h.tr.Events() {
					if e.Kind == "write_begin" && e.RA != nil {
						if dd := model.DiffRA(want, *e.RA); dd != "" {
							r.Violation(id, "transmitted-ra-content", "a transmitted RA differs from the configuration: "+dd, det)
							bad = true
							return
						}
						r.Count("transmitted_ras_compared", 1)
					}
				}
			}
			// L3: re-initialising — link event, the next successful dial is held.
			h.watchC <- 2
			time.Sleep(300 * time.Millisecond) // first retry fails (k=1), second (k=2) is held
			h.settle()
			if held.Load() {
				o, ok = c17Observe(r, id, "re-initialising", prom, h)
				if !ok {
					bad = true
					return
				}
				if wild {
					want = *o.lastRA
				} else {
					want = expect(true)
				}
				if !c17Judge(r, id, o, cfg, want, nil, true, fwd, det) {
					bad = true
					return
				}
				r.Count("reinitialising_observations", 1)
			}
			close(gate)
			time.Sleep(time.Second)
			h.stop(false)
			h.waitRun(vWatchdog)
		})
		if pm != "" && !strings.Contains(pm, "blocked goroutines remain") && !bad {
			r.Violation(id, "bubble-panic", pm, det)
			continue
		}
		if r.WantSample() && !bad && depr {
			r.Sample(map[string]any{"id": id, "toml": text, "forwarding": fwd, "lifecycle_points": []string{"never-initialised", "initialising", "initialised", "re-initialising"}})
		}
	}
}

// c17Race: scrapes and API requests on 4 goroutines while the advertiser
// initialises and re-initialises; the race detector is the oracle.
func c17Race(t *testing.T, r *vlib.Run) {
	rr := r.Rand("c17", "race")
	n := r.Pick(30, 1500)
	for i := 0; i < n; i++ {
		id := fmt.Sprintf("race/%d", i)
		seed := rr.Int63()
		if !r.Mine(id) {
			continue
		}
		sr := rand.New(rand.NewSource(seed))
		doc, exp, _, _ := c17Doc(sr, false)
		text := doc.TOML()
		r.Begin(id)
		r.Nontrivial(text)
		cfg, err := config.Parse(strings.NewReader(text), vEpoch)
		if err != nil {
			continue
		}
		var scrapes atomic.Int64
		pm := vBubble(t, func() {
			h := vNewH(cfg.Interfaces[0], exp, time.Duration(sr.Int63n(1e9)))
			prom := vNewProm(h.st, *cfg, nil)
			h.startAdvertiser()
			stop := make(chan struct{})
			var wg sync.WaitGroup
			for g := 0; g < 4; g++ {
				wg.Add(1)
				go func(g int) {
					defer wg.Done()
					for {
						select {
						case <-stop:
							return
						default:
						}
						func() {
							defer func() { _ = recover() }()
							if g%2 == 0 {
								_, _ = prom.gather()
							} else {
								_, _ = prom.get("/_/api/interfaces")
							}
						}()
						scrapes.Add(1)
						time.Sleep(time.Duration(1+g) * 3 * time.Millisecond)
					}
				}(g)
			}
			for k := 0; k < 50; k++ {
				time.Sleep(40 * time.Millisecond)
				select {
				case h.watchC <- 2:
				default:
				}
				if k%5 == 0 {
					h.rs(netip.MustParseAddr("fe80::77"), true)
				}
			}
			time.Sleep(time.Second)
			close(stop)
			wg.Wait()
			h.stop(true)
			h.waitRun(vWatchdog)
		})
		r.Count("concurrent_scrapes_and_requests", int(scrapes.Load()))
		if pm != "" && !strings.Contains(pm, "blocked goroutines remain") {
			r.Violation(id, "bubble-panic", pm, map[string]any{"toml": text})
		}
		_ = vfake.ErrOther
	}
}
