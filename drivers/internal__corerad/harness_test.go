//go:build verif

package corerad

import (
	"context"
	"fmt"
	"log"
	"net"
	"net/netip"
	"os"
	"strings"
	"sync"
	"sync/atomic"
	"testing"
	"testing/synctest"
	"time"

	"github.com/mdlayher/corerad/internal/config"
	"github.com/mdlayher/corerad/internal/netstate"
	"github.com/mdlayher/corerad/internal/system"
	"github.com/mdlayher/metricslite"
	"github.com/mdlayher/ndp"
	"verif.local/model"
	"verif.local/vfake"
	"verif.local/vlib"
)

var (
	vAllNodes = netip.IPv6LinkLocalAllNodes()
	vMAC      = net.HardwareAddr{0x02, 0x00, 0x00, 0xaa, 0xbb, 0x01}
	vEpoch    = time.Date(1999, 12, 31, 0, 0, 0, 0, time.UTC)
)

// vBubble runs fn inside a synctest bubble and converts a bubble deadlock (or
// any other panic) into a string instead of killing the process.
func vBubble(t *testing.T, fn func()) (panicMsg string) {
	defer func() {
		if p := recover(); p != nil {
			panicMsg = fmt.Sprint(p)
		}
	}()
	vlib.BubbleEnter()
	defer vlib.BubbleExit()
	synctest.Test(t, func(*testing.T) { fn() })
	return ""
}

// vParseOne parses a one-interface document and returns the real
// configuration together with the oracle's expectation.
func vParseOne(d model.Doc) (config.Interface, *model.ExpIface, error) {
	tri, exp, why := model.Expect(&d)
	if tri != model.Yes {
		return config.Interface{}, nil, fmt.Errorf("document not accepted by the specification: %v", why)
	}
	cfg, err := config.Parse(strings.NewReader(d.TOML()), vEpoch)
	if err != nil {
		return config.Interface{}, nil, err
	}
	return cfg.Interfaces[0], &exp.Ifaces[0], nil
}

// vH is one advertiser (or monitor) wired to fakes inside a bubble.
type vH struct {
	tr   *vfake.Trace
	st   *vfake.State
	mem  metricslite.Interface
	mm   *Metrics
	cctx *Context
	cfg  config.Interface
	exp  *model.ExpIface
	adv  *Advertiser
	mon  *Monitor
	lw   *vfake.LogWriter

	mu        sync.Mutex
	conns     []*vfake.Conn
	dials     int
	dialErr   func(k int) error   // outcome of the k-th dial (nil = ok)
	connSetup func(c *vfake.Conn) // applied to every new conn
	noMAC     bool
	// macPerGen: the interface's hardware address differs from one dial to the
	// next (same index): vMACOf(generation), none for some.
	macPerGen bool
	ifIndex   int // 0 = a non-existent index

	watchC chan netstate.Change
	term   atomic.Bool
	ctx    context.Context
	cancel context.CancelFunc

	runDone chan struct{}
	runErr  error
	runT    time.Duration
	nextID  int
}

func vNewH(ifi config.Interface, exp *model.ExpIface, seedOffset time.Duration) *vH {
	return vNewHShared(ifi, exp, seedOffset, nil)
}

// vNewHShared builds a harness that shares trace, State, metrics and logger
// with another one (several interfaces of one daemon).
func vNewHShared(ifi config.Interface, exp *model.ExpIface, seedOffset time.Duration, shared *vH) *vH {
	// CoreRAD seeds its PRNGs from the clock; move the clock first so that
	// its draws are a function of the scenario.
	if seedOffset > 0 {
		time.Sleep(seedOffset)
	}
	h := &vH{cfg: ifi, exp: exp}
	if shared != nil {
		h.tr, h.st, h.mem, h.mm, h.lw, h.cctx = shared.tr, shared.st, shared.mem, shared.mm, shared.lw, shared.cctx
	} else {
		h.tr = vfake.NewTrace()
		h.st = vfake.NewState(h.tr)
		h.mem = metricslite.NewMemory()
		h.mm = NewMetrics(h.mem, "verif", time.Time{}, h.st, []config.Interface{ifi})
		h.lw = &vfake.LogWriter{Tr: h.tr}
		h.cctx = NewContext(log.New(h.lw, "", 0), h.mm, h.st)
	}
	h.st.SetForwarding(ifi.Name, true)
	h.watchC = make(chan netstate.Change, 8)
	h.ctx, h.cancel = context.WithCancel(context.Background())
	h.runDone = make(chan struct{})
	return h
}

func (h *vH) dialFunc() (*system.DialContext, error) {
	h.mu.Lock()
	k := h.dials
	h.dials++
	de := h.dialErr
	h.mu.Unlock()
	if de != nil {
		if err := de(k); err != nil {
			h.tr.Add(vfake.Event{Kind: "dial", If: h.cfg.Name, ID: k, Err: err.Error()})
			return nil, err
		}
	}
	h.mu.Lock()
	c := vfake.NewConn(h.tr, len(h.conns)+1)
	c.If = h.cfg.Name
	if h.connSetup != nil {
		h.connSetup(c)
	}
	h.conns = append(h.conns, c)
	h.mu.Unlock()
	h.tr.Add(vfake.Event{Kind: "dial", If: h.cfg.Name, ID: k, Gen: c.Gen})
	ifi := &net.Interface{Index: 4242, Name: h.cfg.Name, MTU: 1500, Flags: net.FlagUp}
	if h.ifIndex != 0 {
		ifi.Index = h.ifIndex
	}
	if !h.noMAC {
		ifi.HardwareAddr = vMAC
	}
	if h.macPerGen {
		ifi.HardwareAddr = vMACOf(c.Gen)
	}
	return &system.DialContext{Conn: c, Interface: ifi, IP: netip.MustParseAddr("fe80::1")}, nil
}

// startAdvertiser launches Run in its own goroutine.
func (h *vH) startAdvertiser() {
	d := system.NewDialer(h.cfg.Name, h.st, system.Advertise, log.New(h.lw, "", 0))
	d.DialFunc = h.dialFunc
	h.adv = NewAdvertiser(h.cctx, h.cfg, d, h.watchC, func() bool {
		v := h.term.Load()
		h.tr.Add(vfake.Event{Kind: "terminate_read", If: h.cfg.Name, Val: b2i(v)})
		return v
	})
	go func() {
		err := h.adv.Run(h.ctx)
		h.runErr = err
		e := vfake.Event{Kind: "run_return", If: h.cfg.Name}
		if err != nil {
			e.Err = err.Error()
		}
		h.runT = h.tr.Add(e)
		close(h.runDone)
	}()
}

func (h *vH) startMonitor(verbose bool) {
	d := system.NewDialer(h.cfg.Name, h.st, system.Monitor, log.New(h.lw, "", 0))
	d.DialFunc = h.dialFunc
	h.mon = NewMonitor(h.cctx, h.cfg.Name, d, h.watchC, verbose)
	go func() {
		err := h.mon.Run(h.ctx)
		h.runErr = err
		e := vfake.Event{Kind: "run_return"}
		if err != nil {
			e.Err = err.Error()
		}
		h.runT = h.tr.Add(e)
		close(h.runDone)
	}()
}

func b2i(b bool) int64 {
	if b {
		return 1
	}
	return 0
}

// conn returns the current (latest) connection, or nil.
func (h *vH) conn() *vfake.Conn {
	h.mu.Lock()
	defer h.mu.Unlock()
	if len(h.conns) == 0 {
		return nil
	}
	return h.conns[len(h.conns)-1]
}

func (h *vH) nconns() int {
	h.mu.Lock()
	defer h.mu.Unlock()
	return len(h.conns)
}

// at sleeps until the trace clock reads d (no-op when already past).
func (h *vH) at(d time.Duration) {
	if now := h.tr.Now(); d > now {
		time.Sleep(d - now)
	}
}

// settle lets every other goroutine of the bubble run until durably blocked.
func (h *vH) settle() { synctest.Wait() }

// deliver queues an input on the current connection.
func (h *vH) deliver(in vfake.In) int {
	h.nextID++
	in.ID = h.nextID
	c := h.conn()
	if c == nil {
		h.tr.Add(vfake.Event{Kind: "deliver_dropped", ID: in.ID, Msg: "no connection"})
		return in.ID
	}
	c.Deliver(in)
	return in.ID
}

func vRS(withSLLA bool) *ndp.RouterSolicitation {
	rs := &ndp.RouterSolicitation{}
	if withSLLA {
		rs.Options = []ndp.Option{&ndp.LinkLayerAddress{Direction: ndp.Source, Addr: net.HardwareAddr{2, 0, 0, 0, 0, 9}}}
	}
	return rs
}

// rs delivers a valid router solicitation from src.
func (h *vH) rs(src netip.Addr, slla bool) int {
	return h.deliver(vfake.In{Msg: vRS(slla && !src.IsUnspecified()), Hop: 255, From: src})
}

func (h *vH) stop(terminate bool) {
	h.term.Store(terminate)
	h.tr.Add(vfake.Event{Kind: "cancel", If: h.cfg.Name, Val: b2i(terminate)})
	h.cancel()
}

// waitRun waits (in virtual time) for Run to return.
func (h *vH) waitRun(max time.Duration) bool {
	select {
	case <-h.runDone:
		return true
	case <-time.After(max):
		return false
	}
}

// finish makes sure nothing is left running in the bubble: it cancels, waits
// and reports whether Run returned.
func (h *vH) finish() bool {
	select {
	case <-h.runDone:
		return true
	default:
	}
	h.cancel()
	return h.waitRun(vWatchdog)
}

// vWatchdog is the virtual-time bound on every wait a driver performs; it is
// above the longest legitimate silence (a full 50-attempt dial back-off is
// about 134 s).
const vWatchdog = 200 * time.Second

// series returns the value of a labelled sample in the in-memory metrics.
func (h *vH) sample(name string, labels ...string) float64 {
	all, ok := h.mm.Series()
	if !ok {
		return -1
	}
	s, ok := all[name]
	if !ok {
		return 0
	}
	key := strings.Join(labels, ",")
	for k, v := range s.Samples {
		if k == key {
			return v
		}
	}
	return 0
}

// vBaseDoc is a one-interface advertising document with static options only.
func vBaseDoc(min, max time.Duration) model.Doc {
	f := model.Iface{Name: model.S("veth0"), Advertise: model.B(true)}
	f.MaxInterval = model.D(int64(max))
	if min > 0 {
		f.MinInterval = model.D(int64(min))
	}
	f.Prefixes = []model.PrefixSt{{Prefix: model.MkCIDR("2001:db8::/64")}}
	f.RDNSS = []model.RDNSSSt{{Servers: []model.Server{model.MkServer("2001:db8::53")}}}
	return model.Doc{Ifaces: []model.Iface{f}}
}

// vExpectRA returns the RA the configuration calls for right now.
func (h *vH) expectRA(forwarding bool, final bool) model.RA {
	sys := &model.Sys{}
	if !h.noMAC {
		sys.MAC = vMAC
	}
	e := *h.exp
	if final {
		e.DefaultLifetime = 0
	}
	ra, _, _ := model.ExpectedRA(&e, sys, forwarding, vEpoch, time.Now())
	return ra
}

// --- small helpers shared by every driver of this package -------------------
// (kept here so that each property's binary needs only its own driver files
// next to this one: a driver that stops building against a refactored tree
// then breaks its own check and no other)

const vMs = time.Millisecond

// vTiming is false in the parallel (-race) passes, which assert only the
// schedule-insensitive oracles.
var vTiming = os.Getenv("VERIF_TIMING") != "0"

func vPart(def string) string {
	if p := os.Getenv("VERIF_PART"); p != "" {
		return p
	}
	return def
}

func vOnly(ev []vfake.Event, kinds ...string) []vfake.Event {
	var out []vfake.Event
	for _, e := range ev {
		for _, k := range kinds {
			if e.Kind == k {
				out = append(out, e)
				break
			}
		}
	}
	return out
}

// The protocol constants of RFC 4861 §10 as the property statements give them:
// the oracles use their own copies, so a change to CoreRAD's constants shows.
const (
	vMaxRADelay            = 500 * time.Millisecond
	vMaxInitialAdv         = 3
	vMaxInitialAdvInterval = 16 * time.Second
)

// vMACOf: the hardware address the interface has in its g-th life when it
// changes between dials (a bond whose active slave changed, a MAC set by the
// administrator while the link was down; none at all in every fourth life).
func vMACOf(g int) net.HardwareAddr {
	if g%4 == 3 {
		return nil
	}
	return net.HardwareAddr{0x02, 0x00, 0x00, 0xaa, 0xbb, byte(g)}
}
