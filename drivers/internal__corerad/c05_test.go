//go:build verif

package corerad

import (
	"context"
	"fmt"
	"github.com/mdlayher/corerad/internal/system"
	"io"
	"log"
	"math/rand"
	"net"
	"net/netip"
	"os"
	"sort"
	"syscall"
	"testing"
	"time"

	"verif.local/model"
	"verif.local/vfake"
	"verif.local/vlib"
)

// vSrc63 is a scripted rand.Source: rand.Rand.Int63n(n) returns exactly the
// scripted value v when 0 <= v < n.
type vSrc63 struct{ v int64 }

func (s *vSrc63) Int63() int64 { return s.v }
func (s *vSrc63) Seed(int64)   {}

func vFloorSec(d time.Duration) time.Duration { return d / time.Second * time.Second }
func vCeilSec(d time.Duration) time.Duration {
	return (d + time.Second - 1) / time.Second * time.Second
}

// c05Pair checks multicastDelay for one accepted (min,max) pair over indices
// and draws; it returns the number of evaluations.
func c05Pair(r *vlib.Run, id string, min, max time.Duration, extraDraw int64) int {
	n := 0
	rng := int64(max - min)
	draws := []int64{0}
	if rng > 0 {
		draws = []int64{0, rng - 1, rng / 2, rng / 3, extraDraw % rng}
	}
	src := &vSrc63{}
	rnd := rand.New(src)
	// indices: the first ones, and those where an index narrowed to 8, 16 or 32
	// bits would be among "the first three" again (a day, a year, a lifetime of
	// unsolicited advertisements in one generation)
	for _, i := range []int{0, 1, 2, 3, 4, 50, 255, 256, 257, 258, 259, 65535, 65536, 65538, 65539, 1<<31 - 1, 1 << 31, 1<<31 + 2, 1 << 32, 1<<32 + 1, 1<<32 + 3, 1<<62 + 1} {
		for _, dr := range draws {
			src.v = dr
			var d time.Duration
			n++
			ok := r.Guard(id, "panic", func() { d = multicastDelay(rnd, i, min, max) })
			if !ok {
				return n
			}
			bad := ""
			switch {
			case d <= 0:
				bad = "non-positive wait"
			case d%time.Second != 0:
				bad = "wait is not a whole number of seconds"
			case d > vCeilSec(max):
				bad = "wait exceeds MaxRtrAdvInterval"
			case i < vMaxInitialAdv && d > vMaxInitialAdvInterval:
				bad = "one of the first 3 waits exceeds 16s"
			case d < vFloorSec(min) && !(i < vMaxInitialAdv && d == vMaxInitialAdvInterval):
				bad = "wait below MinRtrAdvInterval"
			}
			if bad != "" {
				r.Violation(id, "delay-bound", fmt.Sprintf("multicastDelay(draw=%d, i=%d, min=%v, max=%v) = %v: %s", dr, i, min, max, d, bad), nil)
				return n
			}
		}
	}
	return n
}

// TestVerifC05 — waits between unsolicited RAs.
func TestVerifC05(t *testing.T) {
	part := vPart("pure")
	r := vlib.Start("C05", part)
	defer r.Finish()

	if part == "pure" {
		rr := r.Rand("c05")
		// Exhaustive over every whole-second pair the configuration accepts:
		// max 4..1800, min 3..floor(0.75*max), plus the default min=max for max<9.
		for maxS := 4; maxS <= 1800; maxS++ {
			id := fmt.Sprintf("max/%d", maxS)
			if !r.Mine(id) {
				continue
			}
			r.Begin(id)
			max := time.Duration(maxS) * time.Second
			upper := maxS * 3 / 4
			n := 0
			for minS := 3; minS <= upper; minS++ {
				n += c05Pair(r, id, time.Duration(minS)*time.Second, max, rr.Int63())
			}
			if maxS < 9 {
				n += c05Pair(r, id, max, max, 0)
			}
			r.Evals(n - 1)
			r.Count("pairs_whole_second", upper-2)
			r.Nontrivial(id)
		}
		// Pairs exactly as the real parser produces them for fractional
		// max_interval values with default, "auto" and explicit min_interval.
		np := r.Pick(3000, 60000)
		for k := 0; k < np; k++ {
			id := fmt.Sprintf("parsed/%d", k)
			var max time.Duration
			switch k % 4 {
			case 0:
				max = 4*time.Second + time.Duration(rr.Int63n(int64(5*time.Second)))/time.Millisecond*time.Millisecond // [4s,9s): default min = max
			case 1:
				max = 9*time.Second + time.Duration(rr.Int63n(int64(20*time.Second)))/time.Millisecond*time.Millisecond
			case 2:
				max = time.Duration(4000+rr.Intn(1796001)) * time.Millisecond
			default:
				max = []time.Duration{4 * time.Second, 4001 * time.Millisecond, 4500 * time.Millisecond, 4999 * time.Millisecond, 5250 * time.Millisecond, 8999 * time.Millisecond, 9 * time.Second, 9001 * time.Millisecond, 1800 * time.Second}[rr.Intn(9)]
			}
			d := vBaseDoc(0, max)
			switch k % 3 {
			case 1:
				d.Ifaces[0].MinInterval = model.DAuto()
			case 2:
				upper := time.Duration(0.75 * float64(max)).Truncate(time.Second)
				if upper >= 3*time.Second {
					d.Ifaces[0].MinInterval = model.D(int64(3*time.Second + time.Duration(rr.Int63n(int64(upper-3*time.Second)+1))/time.Millisecond*time.Millisecond))
				}
			}
			if !r.Mine(id) {
				continue
			}
			r.Begin(id)
			ifi, _, err := vParseOne(d)
			if err != nil {
				r.Violation(id, "harness", "document rejected: "+err.Error(), map[string]any{"toml": d.TOML()})
				continue
			}
			r.Evals(c05Pair(r, id, ifi.MinInterval, ifi.MaxInterval, rr.Int63()) - 1)
			r.Count("pairs_from_real_parser", 1)
			r.Nontrivial(id)
		}
		// Fractional values the parser accepts.
		nf := r.Pick(4000, 200000)
		for k := 0; k < nf; k++ {
			id := fmt.Sprintf("frac/%d", k)
			max := 4*time.Second + time.Duration(rr.Int63n(int64(1796*time.Second)))
			if k%3 == 0 {
				max = max / time.Millisecond * time.Millisecond
			}
			upper := time.Duration(0.75 * float64(max)).Truncate(time.Second)
			var min time.Duration
			switch {
			case k%5 == 0 && max < 9*time.Second:
				min = max
			case k%5 == 1 && max >= 9*time.Second:
				min = time.Duration(0.33 * float64(max)).Truncate(time.Second)
			default:
				min = 3*time.Second + time.Duration(rr.Int63n(int64(upper-3*time.Second)+1))
			}
			if !r.Mine(id) {
				continue
			}
			r.Begin(id)
			r.Evals(c05Pair(r, id, min, max, rr.Int63()) - 1)
			r.Count("pairs_fractional", 1)
			r.Nontrivial(id)
			if r.WantSample() && k%997 == 0 {
				r.Sample(map[string]any{"min": min.String(), "max": max.String(), "indices": []int{0, 1, 2, 3, 4, 50}, "draws": "0, range-1, range/2, range/3, random"})
			}
		}
		return
	}

	// part "loop": the real advertiser in virtual time.  With min >= 6 s every
	// unsolicited RA after the second is transmitted at the instant it is
	// requested, so the waits are the gaps between multicast transmissions.
	if part != "race" {
		c05SlowConsumer(t, r)
	}
	rr := r.Rand("c05", "loop")
	n := r.Pick(200, 5000)
	if part == "race" {
		n = r.Pick(60, 900)
	}
	_ = rr
	for k := 0; k < n; k++ {
		id := fmt.Sprintf("loop/%d", k)
		// every draw of a scenario comes from a generator of its own, so that a
		// scenario is the same whichever shard runs it and when it is replayed alone
		rr := r.Rand("c05", "loop", id)
		var min, max time.Duration
		switch k % 3 {
		case 0: // min = max < 9 s (default min), whole and fractional seconds
			min, max = 0, time.Duration(6+rr.Intn(3))*time.Second
			if k%2 == 1 {
				max += time.Duration(rr.Intn(999)+1) * time.Millisecond
			}
		case 1:
			max = time.Duration(8+rr.Intn(60)) * time.Second
			min = time.Duration(6+rr.Intn(int(max/time.Second)*3/4-5)) * time.Second
		default:
			max = time.Duration(30+rr.Intn(1771)) * time.Second
			min = time.Duration(6+rr.Intn(int(max/time.Second)*3/4-5)) * time.Second
		}
		// one scenario in four with min = max in whole seconds also gets bursts of
		// solicitations at the tick instants (three goroutine orderings)
		busy := 0
		if k%3 == 0 && k%2 == 0 && k%4 == 0 {
			busy = 1 + k/12%3
		}
		// in the parallel pass one scenario in three (min < max) is also solicited
		// from unicast sources at scattered instants: the random draw for an answer's delay and the
		// random draw for the next unsolicited wait are made by different goroutines
		solicited := part == "race" && k%3 == 1
		if !r.Mine(id) {
			continue
		}
		r.Begin(id)
		doc := vBaseDoc(min, max)
		switch k % 7 {
		case 3:
			// not a default router: the router lifetime says nothing about the waits
			doc.Ifaces[0].DefaultLifetime = model.D(0)
			r.Count("loops_with_zero_router_lifetime", 1)
		case 5:
			doc.Ifaces[0].DefaultLifetime = model.D(int64(9000 * time.Second))
		}
		ifi, exp, err := vParseOne(doc)
		if err != nil {
			r.Violation(id, "harness", err.Error(), nil)
			continue
		}
		lo, hi := ifi.MinInterval, ifi.MaxInterval
		horizon := 10 * hi
		if busy != 0 {
			r.Count("loops_with_bursts_at_tick_instants", 1)
		}
		var linkAt time.Duration
		if k%5 == 2 {
			linkAt = 4*hi + time.Duration(rr.Int63n(int64(hi)))
			r.Count("loops_with_link_flap", 1)
		}
		var closeAt time.Duration
		if k%5 == 1 {
			closeAt = 2*hi + time.Duration(rr.Int63n(int64(hi)))
			r.Count("loops_with_watcher_halt", 1)
		}
		var faultAt time.Duration
		if k%5 == 4 {
			faultAt = 3*hi + time.Duration(rr.Int63n(int64(hi)))
			r.Count("loops_with_refused_transmission", 1)
		}
		var ev []vfake.Event
		returned := false
		var stopT time.Duration
		pm := vBubble(t, func() {
			h := vNewH(ifi, exp, time.Duration(rr.Int63n(1e9)))
			burstAt := func(off time.Duration) {
				// bursts of solicitations from distinct unicast sources, larger than the
				// 16-slot request queue, aimed at the very instants the interval timer
				// fires (ticks are at multiples of max when min = max in whole seconds)
				for j := 3; j < 9; j++ {
					if d := time.Duration(j)*hi + off - h.tr.Now(); d > 0 {
						time.Sleep(d)
					}
					for x := 0; x < 40; x++ {
						h.rs(netip.MustParseAddr(fmt.Sprintf("fe80::b:%x:%x", j, x+1)), x%2 == 0)
					}
				}
			}
			if faultAt > 0 {
				// a scheduled RA is refused by the socket (transmit queue full): the
				// interface is re-initialised and must go on requesting unsolicited RAs
				h.connSetup = func(cn *vfake.Conn) {
					if cn.Gen != 1 {
						return
					}
					done := false
					cn.WriteErr = func(_ int, dst netip.Addr) error {
						if !done && dst.IsMulticast() && h.tr.Now() >= faultAt {
							done = true
							return &net.OpError{Op: "write", Net: "ip6:ipv6-icmp", Err: os.NewSyscallError("sendmsg", syscall.ENOBUFS)}
						}
						return nil
					}
				}
			}
			if busy == 1 {
				go burstAt(0)
			}
			if solicited {
				r.Count("loops_with_scattered_unicast_solicitations", 1)
				offs := make([]time.Duration, 12)
				for j := range offs {
					offs[j] = time.Duration(rr.Int63n(int64(horizon)))
				}
				sort.Slice(offs, func(a, b int) bool { return offs[a] < offs[b] })
				go func() {
					for j, o := range offs {
						if d := o - h.tr.Now(); d > 0 {
							time.Sleep(d)
						}
						h.rs(netip.MustParseAddr(fmt.Sprintf("fe80::c:%x", j+1)), j%2 == 0)
					}
				}()
			}
			h.startAdvertiser()
			switch busy {
			case 2:
				go burstAt(0)
			case 3:
				go burstAt(-time.Nanosecond)
			}
			if closeAt > 0 {
				// the link watcher halts (not available on this OS, or ended): its
				// subscriptions are closed, which is not a link change — the interface
				// goes on as before, at the same cadence
				h.at(closeAt)
				h.tr.Add(vfake.Event{Kind: "watch_close"})
				close(h.watchC)
			}
			if linkAt > 0 {
				// the link flaps: the interface is re-initialised and must go on
				// requesting unsolicited RAs, by the same rules, in its new life
				h.at(linkAt)
				h.tr.Add(vfake.Event{Kind: "link_event"})
				h.watchC <- 2 // netstate.LinkDown
			}
			h.at(horizon + time.Duration(rr.Int63n(int64(hi))))
			stopT = h.tr.Now()
			h.stop(false)
			returned = h.waitRun(vWatchdog)
			time.Sleep(2 * hi)
			h.settle()
			ev = h.tr.Events()
		})
		if pm != "" {
			r.Violation(id, "bubble-panic", pm, map[string]any{"min": lo.String(), "max": hi.String()})
			continue
		}
		if part == "race" {
			// The parallel pass is for the race detector (and panics): with several
			// processors the known lost wake-up K1 of the scheduling group can hold a
			// transmission back, so transmission instants say nothing about the waits
			// chosen.  The waits are judged in the deterministic `loop` part.
			if !returned {
				r.Violation(id, "no-return", "Run did not return after cancel", map[string]any{"min": lo.String(), "max": hi.String()})
				continue
			}
			r.Count("race_part_scenarios", 1)
			r.Nontrivial(id)
			continue
		}
		var ts, ts1 []time.Duration // ts: the last generation; ts1: the one before the link flap
		lastGen := 0
		for _, e := range ev {
			if e.Kind == "write_begin" && e.Dst == vAllNodes.String() {
				if e.Gen != lastGen && lastGen != 0 {
					ts1, ts = ts, nil
				}
				lastGen = e.Gen
				ts = append(ts, e.T)
			}
		}
		if closeAt > 0 && ts1 != nil {
			r.Violation(id, "loop-wait", fmt.Sprintf("the interface was re-initialised after the link watcher halted at %v although the link never changed: the waits between unsolicited RAs are no longer the ones chosen (%d multicast RAs before, %d after)", closeAt, len(ts1), len(ts)),
				map[string]any{"min": lo.String(), "max": hi.String()})
			continue
		}
		if faultAt > 0 && ts1 == nil {
			r.Violation(id, "stopped-requesting", fmt.Sprintf("after a scheduled RA was refused by the socket (first multicast write from %v on) the interface was never advertised on again although it was not stopped", faultAt),
				map[string]any{"min": lo.String(), "max": hi.String(), "multicast_times": fmt.Sprint(ts)})
			continue
		}
		if linkAt > 0 && ts1 == nil {
			r.Violation(id, "stopped-requesting", fmt.Sprintf("after the link flap at %v the interface was never advertised on again although it was not stopped", linkAt),
				map[string]any{"min": lo.String(), "max": hi.String(), "multicast_times": fmt.Sprint(ts)})
			continue
		}
		det := map[string]any{"min": lo.String(), "max": hi.String(), "multicast_times": fmt.Sprint(ts)}
		if !returned {
			r.Violation(id, "no-return", "Run did not return after cancel", det)
			continue
		}
		if len(ev) > 200000 {
			r.Violation(id, "spinning", fmt.Sprintf("%d events in %v of virtual time", len(ev), horizon), det)
			continue
		}
		// ts[0] initial RA at 0, ts[1] the first request delayed to 3 s; request
		// instants: 0, then ts[2], ts[3], …
		if len(ts) < 3 {
			r.Violation(id, "stopped-requesting", fmt.Sprintf("only %d multicast RAs in %v", len(ts), horizon), det)
			continue
		}
		req := append([]time.Duration{ts[0]}, ts[2:]...)
		if len(ts1) >= 3 {
			// the life before the flap is judged by the same rules (waits only)
			req1 := append([]time.Duration{ts1[0]}, ts1[2:]...)
			for i := 1; i < len(req1); i++ {
				if w := req1[i] - req1[i-1]; w%time.Second != 0 || w > vCeilSec(hi) || (i-1 < 3 && w > 16*time.Second) || (w < vFloorSec(lo) && !(i-1 < 3 && w == 16*time.Second)) {
					r.Violation(id, "loop-wait", fmt.Sprintf("wait %d between unsolicited RAs before the link flap is %v", i-1, w), det)
					break
				}
				r.Count("waits_observed", 1)
			}
		}
		for i := 1; i < len(req); i++ {
			w := req[i] - req[i-1]
			r.Count("waits_observed", 1)
			bad := ""
			switch {
			case w%time.Second != 0:
				bad = "not a whole number of seconds"
			case w > vCeilSec(hi):
				bad = "exceeds MaxRtrAdvInterval"
			case i-1 < 3 && w > 16*time.Second:
				bad = "one of the first 3 waits exceeds 16 s"
			case w < vFloorSec(lo) && !(i-1 < 3 && w == 16*time.Second):
				bad = "below MinRtrAdvInterval"
			}
			if bad != "" {
				r.Violation(id, "loop-wait", fmt.Sprintf("wait %d between unsolicited RAs is %v: %s", i-1, w, bad), det)
				break
			}
		}
		// still requesting at the end: the last request is within max of the stop
		if last := req[len(req)-1]; stopT-last > vCeilSec(hi) {
			r.Violation(id, "stopped-requesting", fmt.Sprintf("last unsolicited RA at %v, stop at %v: more than MaxRtrAdvInterval of silence", last, stopT), det)
		}
		// nothing after the stop
		for _, e := range ev {
			if e.Kind == "write_begin" && e.T > stopT {
				r.Violation(id, "after-stop", fmt.Sprintf("transmission at %v after reload-stop at %v", e.T, stopT), det)
				break
			}
		}
		r.Nontrivial(id)
		_ = model.Second
		if r.WantSample() {
			r.Sample(map[string]any{"min": lo.String(), "max": hi.String(), "first_multicast_times": fmt.Sprint(ts[:min3(len(ts), 8)]), "transmissions": len(ts)})
		}
	}
}

func min3(a, b int) int {
	if a < b {
		return a
	}
	return b
}

// c05SlowConsumer drives the request loop itself (Advertiser.multicast) against
// a request queue that is momentarily full at the instant the interval timer
// fires (a burst of solicitations while the scheduler goroutine is not running):
// the request must be made all the same, as soon as there is room — a dropped
// request doubles the time between two unsolicited RAs.  Virtual time, min = max
// in whole seconds, so every expected instant is known exactly.
func c05SlowConsumer(t *testing.T, r *vlib.Run) {
	for _, M := range []time.Duration{4 * time.Second, 6 * time.Second, 8 * time.Second} { // max < 9 s: min = max, ticks at multiples of max
		for _, tick := range []int{1, 2, 3, 5} {
			for _, early := range []time.Duration{time.Nanosecond, 300 * time.Millisecond} {
				for _, stall := range []time.Duration{time.Nanosecond, 200 * time.Millisecond, time.Second} {
					id := fmt.Sprintf("slowconsumer/%v/%d/%v/%v", M, tick, early, stall)
					if !r.Mine(id) {
						continue
					}
					r.Begin(id)
					r.Nontrivial(id)
					doc := vBaseDoc(0, M)
					ifi, exp, err := vParseOne(doc)
					if err != nil {
						r.Violation(id, "harness", err.Error(), nil)
						continue
					}
					var got []time.Duration
					pm := vBubble(t, func() {
						h := vNewH(ifi, exp, time.Duration(tick)*977)
						d := system.NewDialer(ifi.Name, h.st, system.Advertise, log.New(io.Discard, "", 0))
						adv := NewAdvertiser(h.cctx, ifi, d, nil, func() bool { return false })
						ctx, cancel := context.WithCancel(context.Background())
						ipC := make(chan netip.Addr, 16)
						done := make(chan struct{})
						t0 := time.Now()
						go func() { adv.multicast(ctx, ipC); close(done) }()
						drain := func(until time.Duration) {
							for {
								left := until - time.Since(t0)
								if left <= 0 {
									return
								}
								select {
								case ip := <-ipC:
									if ip.IsMulticast() {
										got = append(got, time.Since(t0))
									}
								case <-time.After(left):
									return
								}
							}
						}
						full := time.Duration(tick)*M - early
						drain(full)
						for i := 0; i < 16; i++ { // the listener's share of the queue
							ipC <- netip.MustParseAddr(fmt.Sprintf("fe80::c:%x", i+1))
						}
						time.Sleep(early + stall) // the consumer is not running across the tick
						drain(time.Duration(tick+4) * M)
						cancel()
						// the loop may be parked in a send: keep the queue moving until it is gone
						for stop := false; !stop; {
							select {
							case <-ipC:
							case <-done:
								stop = true
							}
						}
					})
					if pm != "" {
						r.Violation(id, "bubble-panic", pm, nil)
						continue
					}
					r.Count("slow_consumer_requests_observed", len(got))
					det := map[string]any{"interval": M.String(), "queue_full_from": (time.Duration(tick)*M - early).String(), "consumer_resumes": (time.Duration(tick)*M + stall).String(), "request_instants": fmt.Sprint(got)}
					for i := 1; i < len(got); i++ {
						lim := M
						if i == tick {
							lim += stall // this request had to wait for room in the queue
						}
						if gap := got[i] - got[i-1]; gap > lim {
							r.Violation(id, "request-dropped", fmt.Sprintf("unsolicited RA requests %d and %d are %v apart with MaxRtrAdvInterval %v (the queue was full for %v across the tick)", i-1, i, gap, M, early+stall), det)
							break
						}
					}
					if len(got) < tick+4 {
						r.Violation(id, "stopped-requesting", fmt.Sprintf("%d unsolicited RA requests in %v, want at least %d", len(got), time.Duration(tick+4)*M, tick+4), det)
					}
				}
			}
		}
	}
}
