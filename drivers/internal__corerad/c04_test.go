//go:build verif

package corerad

import (
	"errors"
	"fmt"
	"net/netip"
	"strings"
	"testing"
	"time"

	"github.com/mdlayher/corerad/internal/config"
	"github.com/mdlayher/corerad/internal/plugin"
	"github.com/mdlayher/corerad/internal/system"
	"github.com/mdlayher/ndp"
	"verif.local/model"
	"verif.local/vfake"
	"verif.local/vlib"
)

// TestVerifC04 — a non-forwarding interface never advertises a default route,
// on every path that generates an RA, tracking forwarding flips.
func TestVerifC04(t *testing.T) {
	r := vlib.Start("C04", vPart("det"))
	defer r.Finish()
	c04ReadFaults(t, r)
	c04Unexpandable(r)
	rr := r.Rand("c04", r.Part)
	n := r.Pick(300, 100000)
	if r.Part != "det" {
		n = r.Pick(80, 2000)
	}
	for i := 0; i < n; i++ {
		id := fmt.Sprintf("flips/%d", i)
		lifetimeKind := i % 3 // 0 zero, 1 auto, 2 explicit
		nIf := 1 + rr.Intn(3)
		initial := make([]bool, nIf)
		for k := range initial {
			initial[k] = rr.Intn(2) == 0
		}
		nFlips := 1 + rr.Intn(6)
		seed := time.Duration(rr.Int63n(1e9))
		// epoch plan: for each epoch a list of path triggers
		type epoch struct {
			flipIf int
			paths  []int // 0 solicited 1 periodic(wait for tick) 2 peer RA 3 scrape 4 api 5 consistent peer RA
		}
		var plan []epoch
		for e := 0; e <= nFlips; e++ {
			ep := epoch{flipIf: rr.Intn(nIf)}
			for k, m := 0, 1+rr.Intn(5); k < m; k++ {
				ep.paths = append(ep.paths, rr.Intn(6))
			}
			plan = append(plan, ep)
		}
		terminate := rr.Intn(4) != 0
		if !r.Mine(id) {
			continue
		}
		r.Begin(id)
		r.Nontrivial(id)

		// one document per interface (same settings, different names)
		var ifis []config.Interface
		var exps []*model.ExpIface
		for k := 0; k < nIf; k++ {
			d := vBaseDoc(0, 4*time.Second) // a periodic tick every 4 s
			f := &d.Ifaces[0]
			f.Name = model.S(fmt.Sprintf("veth%d", k))
			// "all other content is unchanged": give the other header fields and
			// options non-default values so that a change to any of them shows
			f.Preference = model.S([]string{"low", "high", "medium", "high"}[(i+k)%4])
			f.Managed, f.OtherConfig = model.B((i+k)%2 == 0), model.B((i+k)%3 == 0)
			f.HopLimit = model.I(int64(32 + (i+k)%200))
			f.ReachableTime, f.RetransmitTimer = model.D(int64(time.Duration(10+i%50)*time.Second)), model.D(int64(time.Duration(1+i%9)*time.Second))
			f.MTU = model.I(1280 + int64(i%200))
			f.Routes = []model.RouteSt{{Prefix: model.MkCIDR("2001:db8:ffff::/48"), Preference: model.S("low")}}
			f.PREF64 = []model.PREF64St{{}}
			switch lifetimeKind {
			case 0:
				f.DefaultLifetime = model.D(0)
			case 2:
				f.DefaultLifetime = model.D(int64(1800 * time.Second))
			}
			ifi, exp, err := vParseOne(d)
			if err != nil {
				r.Violation(id, "harness", err.Error(), nil)
				break
			}
			ifis, exps = append(ifis, ifi), append(exps, exp)
		}
		if len(ifis) != nIf {
			continue
		}

		type gen struct {
			iface string
			t     time.Duration
			path  string
			life  int64
			fwd   bool
			ra    *model.RA
		}
		var gens []gen
		var viol string
		var violDet map[string]any
		var traces [][]vfake.Event
		pm := vBubble(t, func() {
			hs := make([]*vH, nIf)
			// all interfaces share one trace, State, registry and API handler, as in main.go
			h0 := vNewH(ifis[0], exps[0], seed)
			hs[0] = h0
			for k := 1; k < nIf; k++ {
				hs[k] = vNewHShared(ifis[k], exps[k], 0, h0)
			}
			cur := append([]bool(nil), initial...)
			for k := range hs {
				h0.st.SetForwarding(ifis[k].Name, cur[k])
			}
			// a monitoring interface listed after the advertising ones: it sends no RA,
			// so no misconfiguration may ever be reported for it, whatever its
			// neighbours in the list are doing
			// (in every other scenario it is listed FIRST: positions in the list of
			// configured interfaces and in the list of advertising ones then differ)
			monFirst := i%2 == 1
			promIfis := append(append([]config.Interface(nil), ifis...), config.Interface{Name: "vmon9", Monitor: true})
			apiOff := 0
			if monFirst {
				promIfis = append([]config.Interface{{Name: "vmon9", Monitor: true}}, ifis...)
				apiOff = 1
			}
			prom := vNewProm(h0.st, config.Config{Interfaces: promIfis, Debug: config.Debug{Address: ":0", Prometheus: true}}, nil)
			hooks := make([][]*ndp.RouterAdvertisement, nIf)
			for k, h := range hs {
				k, h := k, h
				h.startAdvertiser()
				h.adv.OnInconsistentRA = func(ours, _ *ndp.RouterAdvertisement) {
					hooks[k] = append(hooks[k], ours)
					x := model.FromNDP(ours)
					h.tr.Add(vfake.Event{Kind: "hook_inconsistent", If: h.cfg.Name, Life: int64(ours.RouterLifetime), RA: &x})
				}
			}
			time.Sleep(3500 * time.Millisecond) // initial RA at 0, first periodic at 3 s
			h0.settle()
			check := func(k int, path string, ra model.RA) {
				if viol != "" {
					return
				}
				want, _, _ := model.ExpectedRA(exps[k], &model.Sys{MAC: vMAC}, cur[k], vEpoch, time.Now())
				gens = append(gens, gen{ifis[k].Name, h0.tr.Now(), path, ra.RouterLifetime, cur[k], &ra})
				if d := model.DiffRA(want, ra); d != "" {
					viol = fmt.Sprintf("%s path on %s with forwarding=%v: %s", path, ifis[k].Name, cur[k], d)
					violDet = map[string]any{"want": want, "got": ra}
				}
			}
			for e, ep := range plan {
				if e > 0 {
					h0.settle()
					cur[ep.flipIf] = !cur[ep.flipIf]
					h0.st.SetForwarding(ifis[ep.flipIf].Name, cur[ep.flipIf])
				}
				for _, p := range ep.paths {
					k := rr.Intn(nIf)
					h := hs[k]
					switch p {
					case 0: // solicited unicast RA
						h.rs(netip.MustParseAddr(fmt.Sprintf("fe80::c:%x", len(gens)+1)), true)
						time.Sleep(600 * time.Millisecond)
					case 1: // periodic
						time.Sleep(4100 * time.Millisecond)
					case 2: // peer RA differing in hop limit: consistency check builds our RA
						before := len(hooks[k])
						h.deliver(vfake.In{Msg: &ndp.RouterAdvertisement{CurrentHopLimit: 13, RouterLifetime: 30 * time.Second}, Hop: 255, From: netip.MustParseAddr("fe80::99")})
						time.Sleep(time.Millisecond)
						h0.settle()
						if len(hooks[k]) != before+1 {
							viol, violDet = "the consistency check did not report a peer RA with a different hop limit", nil
						} else {
							check(k, "consistency-check", model.FromNDP(hooks[k][before]))
						}
					case 5: // a peer RA that is consistent with ours: our RA is generated
						// for the comparison all the same (nothing is reported about the
						// peer, so the log line is the only trace of that generation)
						own, _, err := ifis[k].RouterAdvertisement(true)
						if err != nil {
							break
						}
						peer := *own
						peer.Options = nil
						h.tr.Add(vfake.Event{Kind: "peer_consistent", If: ifis[k].Name})
						before := len(hooks[k])
						h.deliver(vfake.In{Msg: &peer, Hop: 255, From: netip.MustParseAddr("fe80::98")})
						time.Sleep(time.Millisecond)
						h0.settle()
						if len(hooks[k]) != before {
							viol, violDet = "a peer RA with our own header fields and no options was reported as inconsistent", nil
						}
						gens = append(gens, gen{ifis[k].Name, h0.tr.Now(), "consistency-check-consistent", 0, cur[k], nil})
					case 3: // metrics scrape
						h0.settle()
						all, err := prom.gather()
						if err != nil {
							viol = "scrape failed: " + err.Error()
							break
						}
						for kk := range ifis {
							name := ifis[kk].Name
							if got := all["corerad_interface_forwarding{interface="+name+"}"]; (got == 1) != cur[kk] {
								viol = fmt.Sprintf("scrape: corerad_interface_forwarding{%s} = %v with forwarding=%v", name, got, cur[kk])
							}
							_, mis := all["corerad_advertiser_misconfiguration{details=interface_not_forwarding,interface="+name+"}"]
							wantMis := !cur[kk] && exps[kk].DefaultLifetime != 0
							if mis != wantMis {
								viol = fmt.Sprintf("scrape: misconfiguration sample for %s present=%v, want %v (forwarding=%v, configured lifetime %v)", name, mis, wantMis, cur[kk], time.Duration(exps[kk].DefaultLifetime))
							}
							gens = append(gens, gen{name, h0.tr.Now(), "scrape", 0, cur[kk], nil})
						}
						for key := range all {
							if strings.HasPrefix(key, "corerad_advertiser_") && strings.Contains(key, "interface=vmon9") {
								viol = "scrape: the monitoring interface vmon9 sends no RA but has the sample " + key
							}
						}
						r.Count("non_advertising_interface_scrapes", 1)
					case 4: // debug API
						h0.settle()
						code, body := prom.get("/_/api/interfaces")
						if code != 200 {
							viol = fmt.Sprintf("API status %d: %s", code, body)
							break
						}
						list, err := vAPIInterfaces(body)
						if err != nil || len(list) != nIf+1 {
							viol = fmt.Sprintf("API body: %v / %d interfaces", err, len(list))
							break
						}
						if m := list[(len(list)-1)*(1-apiOff)]; m["interface"] != "vmon9" || m["advertisement"] != nil {
							viol = fmt.Sprintf("API entry of the monitoring interface vmon9 is %v", m)
							break
						}
						for kk := range ifis {
							if list[kk+apiOff]["interface"] != ifis[kk].Name {
								viol = fmt.Sprintf("API entry %d is %v, the configuration lists %s there", kk+apiOff, list[kk+apiOff]["interface"], ifis[kk].Name)
								break
							}
							adv, _ := list[kk+apiOff]["advertisement"].(map[string]any)
							want, _, _ := model.ExpectedRA(exps[kk], &model.Sys{MAC: vMAC}, cur[kk], vEpoch, time.Now())
							if d := vJSONDiff("advertisement", vExpectedAPI(want), adv, map[string]bool{"pref64": true}); d != "" && viol == "" {
								viol = fmt.Sprintf("API for %s with forwarding=%v: %s", ifis[kk].Name, cur[kk], d)
							}
							gens = append(gens, gen{ifis[kk].Name, h0.tr.Now(), "api", 0, cur[kk], nil})
						}
					}
					if viol != "" {
						break
					}
				}
				if viol != "" {
					break
				}
				// every transmission of this epoch so far is judged against the epoch's value below
			}
			h0.settle()
			for _, h := range hs {
				h.stop(terminate)
			}
			for _, h := range hs {
				h.waitRun(vWatchdog)
			}
			time.Sleep(time.Second)
			h0.settle()
			traces = append(traces, h0.tr.Events())
			// --- transmissions, reads and log lines per interface, by epoch -----
			for k := range hs {
				if viol != "" {
					break
				}
				name := ifis[k].Name
				fwd := initial[k]
				reads, builds, logs, logBuilds := 0, 0, 0, 0
				started := false
				flush := func(at time.Duration) {
					if !fwd && exps[k].DefaultLifetime != 0 {
						if logs != logBuilds {
							viol = fmt.Sprintf("%s: %d 'not forwarding' log lines for %d RA generations in the forwarding-off epoch ending at %v", name, logs, logBuilds, at)
						}
					} else if logs != 0 {
						viol = fmt.Sprintf("%s: %d 'not forwarding' log lines in an epoch where none is due (forwarding=%v) ending at %v", name, logs, fwd, at)
					}
					if reads < builds && viol == "" {
						viol = fmt.Sprintf("%s: %d forwarding reads for %d RA generations in the epoch ending at %v: the state is not read live", name, reads, builds, at)
					}
					reads, builds, logs, logBuilds = 0, 0, 0, 0
				}
				cancelSeen := false
				for _, e := range traces[0] {
					switch {
					case e.Kind == "flip_forwarding" && e.Src == name:
						if started {
							flush(e.T)
						}
						fwd = e.Val != 0
					case e.Kind == "fwd_read" && e.Src == name:
						reads++
					case e.Kind == "dial" && e.If == name:
						started = true
					case e.Kind == "cancel" && e.If == name:
						cancelSeen = true
					case e.Kind == "log":
						if strings.HasPrefix(e.Msg, name+": ") && strings.Contains(strings.ToLower(e.Msg), "forwarding") {
							logs++
						}
					case e.Kind == "peer_consistent" && e.If == name:
						builds++
						logBuilds++
					case e.Kind == "hook_inconsistent" && e.If == name:
						builds++
						logBuilds++
					case e.Kind == "write_begin" && e.If == name:
						builds++
						ex := *exps[k]
						if cancelSeen && terminate && e.Dst == vAllNodes.String() {
							// the final RA is built from a configuration whose lifetime is 0:
							// nothing is misconfigured about it
							ex.DefaultLifetime = 0
						} else {
							logBuilds++
						}
						want, _, _ := model.ExpectedRA(&ex, &model.Sys{MAC: vMAC}, fwd, vEpoch, time.Now())
						path := "transmit"
						if cancelSeen {
							path = "final"
						}
						gens = append(gens, gen{name, e.T, path, e.Life, fwd, e.RA})
						if d := model.DiffRA(want, *e.RA); d != "" && viol == "" {
							viol = fmt.Sprintf("RA transmitted on %s at %v to %s with forwarding=%v: %s", name, e.T, e.Dst, fwd, d)
							violDet = map[string]any{"want": want, "got": e.RA}
						}
					}
				}
				if viol == "" {
					flush(h0.tr.Now())
				}
			}
		})
		if pm != "" && !strings.Contains(pm, "blocked goroutines remain") {
			r.Violation(id, "bubble-panic", pm, nil)
			continue
		}
		r.Count("ra_generations_observed", len(gens))
		for _, g := range gens {
			r.Count("path_"+g.path, 1)
			if !g.fwd {
				r.Count("generations_with_forwarding_off", 1)
			}
		}
		if viol != "" {
			cls := "forwarding:" + strings.SplitN(viol, " ", 2)[0]
			det := map[string]any{"lifetime_kind": []string{"zero", "auto", "explicit"}[lifetimeKind], "interfaces": nIf, "initial": initial, "violation": violDet}
			if len(traces) > 0 {
				det["trace0"] = vfake.Strings(vOnly(traces[0], "flip_forwarding", "write_begin", "hook_inconsistent", "cancel", "log"), 60)
			}
			r.Violation(id, cls, viol, det)
			continue
		}
		if r.WantSample() && nFlips >= 2 {
			var s []string
			for _, g := range gens {
				s = append(s, fmt.Sprintf("%v %s %s fwd=%v life=%v", g.t, g.iface, g.path, g.fwd, time.Duration(g.life)))
				if len(s) > 25 {
					break
				}
			}
			r.Sample(map[string]any{"id": id, "generations": s})
		}
	}
}

// c04ReadFaults: the forwarding state becomes unreadable after it was flipped.
// Whatever the daemon then does (stop, retry, stay silent), it must not send an
// RA with a non-zero router lifetime while forwarding is in fact off: an
// earlier reading says nothing about the moment the RA is generated.
func c04ReadFaults(t *testing.T, r *vlib.Run) {
	paths := []string{"solicited", "periodic", "peer-ra", "solicited+periodic"}
	for lk, lname := range []string{"auto", "explicit"} {
		for _, faults := range []int{1, 2, 1000} {
			for pi, path := range paths {
				for warm := 0; warm < 3; warm++ {
					for _, ek := range []string{"syscall", "permission", "other"} {
						id := fmt.Sprintf("readfault/%s/%d/%s/%d/%s", lname, faults, path, warm, ek)
						if !r.Mine(id) {
							continue
						}
						r.Begin(id)
						r.Nontrivial(id)
						d := vBaseDoc(0, 4*time.Second)
						if lk == 1 {
							d.Ifaces[0].DefaultLifetime = model.D(int64(1800 * time.Second))
						}
						ifi, exp, err := vParseOne(d)
						if err != nil {
							r.Violation(id, "harness", err.Error(), nil)
							continue
						}
						var ev []vfake.Event
						var flipT time.Duration
						pm := vBubble(t, func() {
							h := vNewH(ifi, exp, time.Duration(pi*977+warm))
							h.st.SetForwarding(ifi.Name, true)
							h.startAdvertiser()
							hookLife := func(ours, _ *ndp.RouterAdvertisement) {
								h.tr.Add(vfake.Event{Kind: "hook_inconsistent", If: h.cfg.Name, Life: int64(ours.RouterLifetime)})
							}
							h.adv.OnInconsistentRA = hookLife
							time.Sleep(500 * time.Millisecond)
							// some generations while forwarding is on and readable
							for k := 0; k < warm; k++ {
								h.rs(netip.MustParseAddr(fmt.Sprintf("fe80::a:%x", k+1)), true)
								time.Sleep(700 * time.Millisecond)
							}
							h.settle()
							h.st.SetForwarding(ifi.Name, false)
							flipT = h.tr.Now()
							left := faults
							var fe error
							switch ek {
							case "syscall":
								fe = vfake.ErrSyscall
							case "permission":
								fe = vfake.ErrPermission
							default:
								fe = vfake.ErrOther
							}
							h.st.SetFwdErr(func(int, string) error {
								if left > 0 {
									left--
									return fmt.Errorf("open: %w", fe)
								}
								return nil
							})
							if strings.Contains(path, "solicited") {
								h.rs(netip.MustParseAddr("fe80::b:1"), true)
								time.Sleep(700 * time.Millisecond)
							}
							if strings.Contains(path, "periodic") {
								time.Sleep(4500 * time.Millisecond)
							}
							if path == "peer-ra" {
								h.deliver(vfake.In{Msg: &ndp.RouterAdvertisement{CurrentHopLimit: 13, RouterLifetime: 30 * time.Second}, Hop: 255, From: netip.MustParseAddr("fe80::99")})
								time.Sleep(100 * time.Millisecond)
							}
							// afterwards the state is readable again: more generations
							h.rs(netip.MustParseAddr("fe80::b:2"), true)
							time.Sleep(5 * time.Second)
							h.settle()
							h.stop(true)
							h.waitRun(vWatchdog)
							time.Sleep(time.Second)
							h.settle()
							ev = h.tr.Events()
						})
						if pm != "" && !strings.Contains(pm, "blocked goroutines remain") {
							r.Violation(id, "bubble-panic", pm, nil)
							continue
						}
						failedReads, after := 0, 0
						for _, e := range ev {
							if e.Kind == "fwd_read" && e.Err != "" {
								failedReads++
							}
							if e.T <= flipT {
								continue
							}
							if (e.Kind == "write_begin" && e.RA != nil) || e.Kind == "hook_inconsistent" {
								after++
								if e.Life != 0 {
									r.Violation(id, "forwarding:stale-after-read-fault", fmt.Sprintf("%s at %v carries router lifetime %v although forwarding has been off since %v (the forwarding state could not be read)", e.Kind, e.T, time.Duration(e.Life), flipT),
										map[string]any{"trace": vfake.Strings(vOnly(ev, "flip_forwarding", "fwd_read", "write_begin", "hook_inconsistent", "cancel", "run_return"), 60)})
									break
								}
							}
						}
						r.Count("read_fault_scenarios", 1)
						r.Count("failed_forwarding_reads", failedReads)
						r.Count("generations_after_flip_checked", after)
					}
				}
			}
		}
	}
}

// c04Unexpandable: the debug API on an interface one of whose wildcards cannot
// be expanded (the interface was never initialised, or the address / route
// source fails).  No RA can be generated then, and an error is what CoreRAD
// answers; but *if* an advertisement is reported for a non-forwarding
// interface, it is an RA generated while forwarding is off: router lifetime 0.
func c04Unexpandable(r *vlib.Run) {
	wild := []string{"  [[interfaces.prefix]]\n  prefix = \"::/64\"\n", "  [[interfaces.route]]\n  prefix = \"::/0\"\n", "  [[interfaces.rdnss]]\n  servers = [\"::\"]\n"}
	for wi, w := range wild {
		for _, life := range []string{"", "default_lifetime = \"1800s\"\n", "default_lifetime = \"0s\"\n"} {
			for _, why := range []string{"never-prepared", "source-fails"} {
				for _, fwd := range []bool{false, true} {
					for _, pos := range []string{"first", "last"} {
						id := fmt.Sprintf("unexpandable/%d/%q/%s/%v/%s", wi, life, why, fwd, pos)
						if !r.Mine(id) {
							continue
						}
						r.Begin(id)
						r.Nontrivial(id)
						static := "  [[interfaces.prefix]]\n  prefix = \"2001:db8:7::/64\"\n  [[interfaces.dnssl]]\n  domain_names = [\"example.net\"]\n"
						body := w + static
						if pos == "last" {
							body = static + w
						}
						text := "[[interfaces]]\nname = \"veth0\"\nadvertise = true\n" + life + body + "[[interfaces]]\nname = \"veth1\"\nadvertise = true\ndefault_lifetime = \"1200s\"\n[debug]\naddress = \"127.0.0.1:0\"\n"
						cfg, err := config.Parse(strings.NewReader(text), vEpoch)
						if err != nil {
							r.Violation(id, "harness", err.Error(), map[string]any{"toml": text})
							continue
						}
						if why == "source-fails" {
							boom := errors.New("verif: netlink: no such device")
							for _, p := range cfg.Interfaces[0].Plugins {
								switch p := p.(type) {
								case *plugin.Prefix:
									p.Addrs = func() ([]system.IP, error) { return nil, boom }
								case *plugin.Route:
									p.Routes = func() ([]system.Route, error) { return nil, boom }
								case *plugin.RDNSS:
									p.Addrs = func() ([]system.IP, error) { return nil, boom }
								}
							}
						}
						st := vfake.NewState(vfake.NewTrace())
						st.SetForwarding("veth0", fwd)
						st.SetForwarding("veth1", true)
						prom := vNewProm(st, *cfg, nil)
						var code int
						var out string
						if !r.Guard(id, "panic", func() { code, out = prom.get("/_/api/interfaces") }) {
							continue
						}
						_, _ = prom.gather()
						switch code {
						case 500:
							r.Count("unexpandable_api_errors", 1)
						case 200:
							list, err := vAPIInterfaces(out)
							if err != nil || len(list) != 2 {
								r.Violation(id, "forwarding:API", fmt.Sprintf("API body undecodable (%v) or %d interfaces for 2 configured", err, len(list)), map[string]any{"toml": text, "body": out})
								continue
							}
							adv, _ := list[0]["advertisement"].(map[string]any)
							lt, _ := adv["router_lifetime_seconds"].(float64)
							if adv != nil && !fwd && lt != 0 {
								r.Violation(id, "forwarding:API", fmt.Sprintf("the debug API reports an RA for veth0 with router lifetime %v s while forwarding is off (wildcard %s)", lt, why), map[string]any{"toml": text, "body": out})
								continue
							}
							r.Count("unexpandable_api_answers_checked", 1)
						default:
							r.Violation(id, "forwarding:API", fmt.Sprintf("API status %d", code), map[string]any{"toml": text, "body": out})
						}
					}
				}
			}
		}
	}
}
