//go:build verif

package corerad

import (
	"fmt"
	"io"
	"log"
	"net"
	"net/http"
	"os"
	"path/filepath"
	"strings"
	"syscall"
	"testing"
	"time"

	"github.com/mdlayher/corerad/internal/config"
	"github.com/mdlayher/corerad/internal/system"
	"github.com/mdlayher/sdnotify"
	"verif.local/vlib"
)

// TestVerifC20HTTP — the real debug HTTP task (and the real link watcher task)
// from BuildTasks under the real Serve, on a real TCP port of the loopback
// interface: free, occupied for a while, occupied for good; alone or with a
// scripted task that fails.  Real time (sockets cannot live in a bubble); the
// verdicts are orders and counts, the only durations are generous watchdogs.
func TestVerifC20HTTP(t *testing.T) {
	r := vlib.Start("C20", "http")
	defer r.Finish()
	dir, err := os.MkdirTemp("", "verif-c20h-")
	if err != nil {
		t.Fatal(err)
	}
	defer os.RemoveAll(dir)

	kinds := []string{"free", "busy-then-free", "busy-forever", "free+failing-task", "busy-forever+failing-task"}
	sigs := []syscall.Signal{syscall.SIGTERM, syscall.SIGHUP, syscall.SIGINT}
	reps := r.Pick(1, 4)
	for rep := 0; rep < reps; rep++ {
		for ki, kind := range kinds {
			id := fmt.Sprintf("http/%s/%d", kind, rep)
			if !r.Mine(id) {
				continue
			}
			r.Begin(id)
			r.Nontrivial(id)
			lg := &c20Log{}
			viol, cls := c20HTTPRun(r, lg, dir, kind, sigs[(rep+ki)%3], rep*10+ki)
			switch {
			case cls == "inconclusive":
				r.Inconclusive(id, viol)
			case viol != "":
				r.Violation(id, cls, viol, map[string]any{"kind": kind, "log": lg.snapshot()})
			default:
				r.Count("http_scenarios_ok", 1)
				if r.WantSample() {
					r.Sample(map[string]any{"kind": kind, "log": lg.snapshot()})
				}
			}
		}
	}
}

func c20HTTPRun(r *vlib.Run, lg *c20Log, dir, kind string, sig syscall.Signal, n int) (string, string) {
	// a port nobody else uses
	l0, err := net.Listen("tcp", "127.0.0.1:0")
	if err != nil {
		return "cannot listen on loopback: " + err.Error(), "inconclusive"
	}
	addr := l0.Addr().String()
	busy := strings.HasPrefix(kind, "busy")
	if !busy {
		l0.Close()
	}
	defer l0.Close()

	sock := filepath.Join(dir, fmt.Sprintf("h%d.sock", n))
	_ = os.Remove(sock)
	pc, err := net.ListenUnixgram("unixgram", &net.UnixAddr{Name: sock, Net: "unixgram"})
	if err != nil {
		return "notify socket: " + err.Error(), "inconclusive"
	}
	defer pc.Close()
	go func() {
		buf := make([]byte, 4096)
		for {
			k, _, err := pc.ReadFromUnix(buf)
			if err != nil {
				return
			}
			for _, line := range strings.Split(string(buf[:k]), "\n") {
				if strings.HasPrefix(line, "READY=") || strings.HasPrefix(line, "STOPPING=") {
					lg.add("notify %s", line)
				}
			}
		}
	}()
	nt, err := sdnotify.Open(sock)
	if err != nil {
		return "notifier: " + err.Error(), "inconclusive"
	}
	defer nt.Close()

	srv := NewServer(NewContext(log.New(io.Discard, "", 0), nil, system.TestState{}))
	cfg := config.Config{
		Interfaces: []config.Interface{{Name: "verifnone0"}}, // neither advertises nor monitors: no task
		Debug:      config.Debug{Address: addr, Prometheus: true},
	}
	tasks := srv.BuildTasks(cfg, http.HandlerFunc(func(w http.ResponseWriter, _ *http.Request) { w.WriteHeader(204) }))
	var names []string
	for _, tk := range tasks {
		names = append(names, tk.String())
	}
	lg.add("tasks %q", names)
	if len(tasks) != 2 || !strings.HasPrefix(names[0], "debug HTTP server") || names[1] != "link state watcher" {
		return fmt.Sprintf("BuildTasks gave %q, want the debug HTTP server and the link state watcher", names), "task-list"
	}
	var failer *c20Task
	if strings.HasSuffix(kind, "+failing-task") {
		failer = &c20Task{name: "scripted", run: "fail", stop: "prompt", ready: "now", lg: lg, term: c20TerminateFunc(r, srv),
			readyC: make(chan struct{}), trigger: make(chan struct{}), stopGate: make(chan struct{}), err: fmt.Errorf("boom-from-scripted")}
		tasks = append(tasks, failer)
	}
	sigC := make(chan os.Signal, 1)
	done := make(chan struct{})
	var serveErr error
	go func() {
		serveErr = srv.Serve(sigC, nt, tasks)
		lg.add("serve_return err=%v", serveErr)
		close(done)
	}()
	returned := func() bool {
		select {
		case <-done:
			return true
		default:
			return false
		}
	}
	get := func() (int, error) {
		c := &http.Client{Timeout: 3 * time.Second}
		resp, err := c.Get("http://" + addr + "/")
		if err != nil {
			return 0, err
		}
		resp.Body.Close()
		return resp.StatusCode, nil
	}
	ready := func(max time.Duration) bool {
		return c20WaitFor(func() bool { return lg.has("notify READY=1") || returned() }, max) && lg.has("notify READY=1")
	}

	if busy {
		// the port is taken: that is not fatal, and nothing may be announced
		time.Sleep(1500 * time.Millisecond)
		if lg.has("notify READY=1") {
			return "READY=1 was announced although the debug HTTP server could not listen yet", "ready-too-early"
		}
		if returned() {
			// The statement does not say whether an address in use is fatal (CoreRAD
			// retries 40 times, 3 s apart).  An implementation that treats it as a fatal
			// task error must then return exactly that error; anything else is wrong.
			if serveErr == nil || !strings.Contains(serveErr.Error(), "debug HTTP server") {
				return fmt.Sprintf("Serve returned %v while the debug address was in use: neither serving nor that task's error", serveErr), "serve-returned-unprompted"
			}
			r.Count("http_busy_port_treated_as_fatal", 1)
			return "", ""
		}
		r.Count("http_listen_retries_observed", 1)
	}
	if kind == "busy-then-free" {
		l0.Close()
		lg.add("port released")
	}
	if !strings.HasPrefix(kind, "busy-forever") {
		if !ready(40 * time.Second) {
			if returned() {
				return fmt.Sprintf("Serve returned (%v) instead of serving the debug HTTP server", serveErr), "serve-returned-unprompted"
			}
			return "the debug HTTP server did not become ready within 40 s of its port being free (retries are 3 s apart)", "http-never-ready"
		}
		code, err := get()
		lg.add("GET / -> %d %v", code, err)
		if err != nil || code != 204 {
			return fmt.Sprintf("READY=1 was announced but the debug HTTP server does not answer: %d %v", code, err), "ready-but-not-serving"
		}
		r.Count("http_requests_served", 1)
	}
	// stimulus
	if failer != nil {
		lg.add("fail_trigger")
		close(failer.trigger)
	} else {
		lg.add("signal %v", sig)
		sigC <- sig
	}
	select {
	case <-done:
	case <-time.After(40 * time.Second):
		if why := c20Starved(done); why != "" {
			return "Serve had not returned 40 s after the stimulus, but " + why, "inconclusive"
		}
		return "Serve had not returned 40 s after the stimulus (debug HTTP task in " + kind + "; every goroutine of the server is parked, in two dumps 10 s apart)", "serve-hung"
	}
	if failer != nil {
		if serveErr == nil || !strings.Contains(serveErr.Error(), "boom-from-scripted") {
			return fmt.Sprintf("Serve returned %v, want the scripted task's error", serveErr), "failure-not-reported"
		}
	} else if serveErr != nil {
		return "Serve returned an error after a shutdown signal: " + serveErr.Error(), "signal-returns-error"
	}
	// every task has returned: the listener must be gone
	if !busy || kind == "busy-then-free" {
		l2, err := net.Listen("tcp", addr)
		if err != nil {
			return "Serve returned while the debug HTTP listener was still open: " + err.Error(), "return-before-task-end"
		}
		l2.Close()
		if _, err := get(); err == nil {
			return "the debug HTTP server still answers after Serve returned", "return-before-task-end"
		}
		r.Count("http_listener_released_on_return", 1)
	}
	if strings.HasPrefix(kind, "busy-forever") && lg.has("notify READY=1") {
		return "READY=1 was announced although the debug HTTP server never listened", "ready-too-early"
	}
	return "", ""
}
