//go:build verif

package corerad

import (
	"fmt"
	"net/netip"
	"strings"

	"github.com/mdlayher/corerad/internal/config"
	"github.com/mdlayher/corerad/internal/plugin"
	"github.com/mdlayher/corerad/internal/system"
	"verif.local/model"
	"verif.local/vfake"
	"verif.local/vlib"
)

// c17Duplicates: accepted configurations whose RA carries the same prefix,
// route, server list or search list more than once — a wildcard stanza expands
// to something that is also configured statically, or two stanzas of a kind are
// identical.  The RA is what it is; a scrape of it still completes, with ONE
// sample per distinct label whose value is that of one of the options carrying
// that label, and the debug API still mirrors every option.
func c17Duplicates(r *vlib.Run) {
	type dupCase struct {
		name, body string
		addrs      []string // what the interface's addresses are
		routes     []string // loopback routes
	}
	cases := []dupCase{
		{"static+wildcard-prefix", "  [[interfaces.prefix]]\n  prefix = \"2001:db8:77::/64\"\n  autonomous = false\n  valid_lifetime = \"2h\"\n  preferred_lifetime = \"1h\"\n  [[interfaces.prefix]]\n  prefix = \"::/64\"\n", []string{"2001:db8:77::1/64", "fd00:5::1/64"}, nil},
		{"wildcard+static-prefix", "  [[interfaces.prefix]]\n  prefix = \"::/64\"\n  [[interfaces.prefix]]\n  prefix = \"fd00:5::/64\"\n  on_link = false\n", []string{"2001:db8:77::1/64", "fd00:5::1/64"}, nil},
		{"static+wildcard-route", "  [[interfaces.route]]\n  prefix = \"2001:db8:f::/48\"\n  lifetime = \"10m\"\n  [[interfaces.route]]\n  prefix = \"::/0\"\n  lifetime = \"20m\"\n", nil, []string{"2001:db8:f::/48", "fd00:9::/64"}},
		{"static+wildcard-rdnss", "  [[interfaces.rdnss]]\n  servers = [\"fd00:5::1\"]\n  lifetime = \"10m\"\n  [[interfaces.rdnss]]\n  servers = [\"::\"]\n  lifetime = \"20m\"\n", []string{"fd00:5::1/64"}, nil},
		// not duplicates, but near ones: the same network address with another length
		{"static-56+wildcard-64", "  [[interfaces.prefix]]\n  prefix = \"2001:db8:77::/56\"\n  autonomous = false\n  [[interfaces.prefix]]\n  prefix = \"::/64\"\n", []string{"2001:db8:77::1/64"}, nil},
		{"static-48+wildcard-56-route", "  [[interfaces.route]]\n  prefix = \"2001:db8:f::/48\"\n  lifetime = \"10m\"\n  [[interfaces.route]]\n  prefix = \"::/0\"\n  lifetime = \"20m\"\n", nil, []string{"2001:db8:f::/56"}},
		{"identical-rdnss", "  [[interfaces.rdnss]]\n  servers = [\"2001:db8::53\"]\n  lifetime = \"10m\"\n  [[interfaces.rdnss]]\n  servers = [\"2001:db8::53\"]\n  lifetime = \"20m\"\n", nil, nil},
		{"identical-dnssl", "  [[interfaces.dnssl]]\n  domain_names = [\"example.net\"]\n  lifetime = \"10m\"\n  [[interfaces.dnssl]]\n  domain_names = [\"example.net\"]\n  lifetime = \"20m\"\n", nil, nil},
	}
	for _, c := range cases {
		for _, fwd := range []bool{true, false} {
			id := fmt.Sprintf("duplicates/%s/%v", c.name, fwd)
			if !r.Mine(id) {
				continue
			}
			r.Begin(id)
			r.Nontrivial(id)
			text := "[[interfaces]]\nname = \"veth0\"\nadvertise = true\n" + c.body + "[debug]\naddress = \"127.0.0.1:0\"\nprometheus = true\n"
			cfg, err := config.Parse(strings.NewReader(text), vEpoch)
			if err != nil {
				// the configuration is not accepted: nothing to observe (C02's business)
				r.Count("duplicate_configurations_rejected", 1)
				continue
			}
			det := map[string]any{"toml": text, "addresses": c.addrs, "loopback_routes": c.routes, "forwarding": fwd}
			addrs := func() ([]system.IP, error) {
				var out []system.IP
				for _, a := range c.addrs {
					out = append(out, system.IP{Address: netip.MustParsePrefix(a)})
				}
				return out, nil
			}
			routes := func() ([]system.Route, error) {
				var out []system.Route
				for _, a := range c.routes {
					out = append(out, system.Route{Prefix: netip.MustParsePrefix(a), Index: 1})
				}
				return out, nil
			}
			for _, p := range cfg.Interfaces[0].Plugins {
				switch p := p.(type) {
				case *plugin.Prefix:
					p.Addrs = addrs
				case *plugin.Route:
					p.Routes = routes
				case *plugin.RDNSS:
					p.Addrs = addrs
				}
			}
			ra, _, err := cfg.Interfaces[0].RouterAdvertisement(fwd)
			if err != nil {
				r.Violation(id, "harness", "RA generation failed: "+err.Error(), det)
				continue
			}
			got := model.FromNDP(ra)
			st := vfake.NewState(vfake.NewTrace())
			st.SetForwarding("veth0", fwd)
			prom := vNewProm(st, *cfg, nil)
			var all map[string]float64
			var serr error
			if !r.Guard(id, "panic", func() { all, serr = prom.gather() }) {
				continue
			}
			if serr != nil {
				r.Violation(id, "scrape-error@duplicates", "the scrape of an initialised interface fails because its RA carries an option twice: "+strings.SplitN(serr.Error(), "\n", 3)[0]+" ...", det)
				continue
			}
			// every label the RA calls for once, with the value of one of its options
			allowed := map[string]map[float64]bool{}
			for _, o := range got.Options {
				one := got
				one.Options = []model.Opt{o}
				for k, v := range vExpectedSamples("veth0", one) {
					if allowed[k] == nil {
						allowed[k] = map[float64]bool{}
					}
					allowed[k][v] = true
				}
			}
			bad := ""
			seen := vConstOnly(all, "veth0")
			for k, vs := range allowed {
				v, ok := seen[k]
				if !ok {
					bad = "missing " + k
				} else if !vs[v] {
					bad = fmt.Sprintf("%s = %v, none of the options with that label has this value (%v)", k, v, vs)
				}
			}
			for k := range seen {
				if strings.HasPrefix(k, "corerad_interface_") || strings.HasPrefix(k, "corerad_advertiser_misconfiguration") {
					continue
				}
				if allowed[k] == nil {
					bad = "unexpected " + k
				}
			}
			if bad != "" {
				r.Violation(id, "scrape-content@duplicates", "scrape does not mirror the RA: "+bad, det)
				continue
			}
			code, body := prom.get("/_/api/interfaces")
			if code != 200 {
				r.Violation(id, "api-status@duplicates", fmt.Sprintf("debug API answered %d: %s", code, strings.TrimSpace(body)), det)
				continue
			}
			list, err := vAPIInterfaces(body)
			if err != nil || len(list) != 1 {
				r.Violation(id, "api-body@duplicates", fmt.Sprintf("API body undecodable (%v) or %d interfaces", err, len(list)), det)
				continue
			}
			adv, _ := list[0]["advertisement"].(map[string]any)
			if d := vJSONDiff("advertisement", vExpectedAPI(got), adv, map[string]bool{"pref64": true}); d != "" {
				r.Violation(id, "api-content@duplicates", "debug API does not mirror the RA: "+d, det)
				continue
			}
			r.Count("duplicate_option_scrapes_compared", 1)
		}
	}
}
