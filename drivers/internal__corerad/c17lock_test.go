//go:build verif

package corerad

import (
	"fmt"
	"math/rand"
	"net"
	"runtime"
	"strings"
	"sync"
	"sync/atomic"
	"testing"
	"time"

	"github.com/mdlayher/corerad/internal/config"
	"github.com/mdlayher/corerad/internal/system"
	"verif.local/vlib"
)

// TestVerifC17Lock — scrapes and API requests must never block the daemon:
// real goroutines (no bubble, so that a goroutine stuck on a lock is visible)
// scrape while every plugin is re-prepared as an advertiser does on each
// (re)initialisation, on configurations whose wildcard expansion succeeds,
// fails, or has never been prepared.  Progress is judged by a watchdog whose
// verdict is the goroutine dump (a goroutine parked in a sync lock of the
// plugin package), not the elapsed time alone.
func TestVerifC17Lock(t *testing.T) {
	r := vlib.Start("C17", "lock")
	defer r.Finish()
	rr := r.Rand("c17", "lock")
	n := r.Pick(24, 300)
	lo := c17LoIndex()
	for i := 0; i < n; i++ {
		id := fmt.Sprintf("lock/%d", i)
		seed := rr.Int63()
		if !r.Mine(id) {
			continue
		}
		sr := rand.New(rand.NewSource(seed))
		// wildcard stanzas of every kind; index 0 = never prepared, 1 = prepared on
		// a non-existent interface (expansion fails / is empty), 2 = loopback.
		mode := i % 3
		text := "[[interfaces]]\nname = \"veth0\"\nadvertise = true\n  [[interfaces.prefix]]\n  [[interfaces.prefix]]\n  prefix = \"2001:db8:5::/64\"\n  deprecated = true\n  [[interfaces.route]]\n  [[interfaces.rdnss]]\n  [[interfaces.rdnss]]\n  servers = [\"::\", \"2001:db8::53\"]\n[debug]\naddress = \"127.0.0.1:0\"\nprometheus = true\n"
		cfg, err := config.Parse(strings.NewReader(text), vEpoch)
		if err != nil {
			r.Violation(id, "harness", err.Error(), nil)
			continue
		}
		r.Begin(id)
		r.Nontrivial(fmt.Sprintf("%d/%d", mode, seed))
		prom := vNewProm(system.TestState{Forwarding: true}, *cfg, nil)
		ifi := &net.Interface{Index: 424242, Name: "veth0", HardwareAddr: vMAC}
		if mode == 2 {
			ifi.Index = lo
		}
		var ops atomic.Int64
		stop := make(chan struct{})
		var wg sync.WaitGroup
		for g := 0; g < 4; g++ {
			wg.Add(1)
			go func(g int) {
				defer wg.Done()
				for {
					select {
					case <-stop:
						return
					default:
					}
					func() {
						defer func() { _ = recover() }()
						if g%2 == 0 {
							_, _ = prom.gather()
						} else {
							_, _ = prom.get("/_/api/interfaces")
						}
					}()
					ops.Add(1)
				}
			}(g)
		}
		wg.Add(1)
		go func() {
			defer wg.Done()
			for k := 0; ; k++ {
				select {
				case <-stop:
					return
				default:
				}
				if mode != 0 || k > 200 {
					for _, p := range cfg.Interfaces[0].Plugins {
						_ = p.Prepare(ifi)
						_ = p.String()
					}
				}
				ops.Add(1)
				if k%8 == 0 {
					runtime.Gosched()
				}
			}
		}()
		// run for a number of operations, watching progress
		target := int64(3000 + sr.Intn(2000))
		last, lastChange := int64(0), time.Now()
		stuck := false
		for ops.Load() < target {
			time.Sleep(5 * time.Millisecond)
			if cur := ops.Load(); cur != last {
				last, lastChange = cur, time.Now()
			} else if time.Since(lastChange) > c17NoProgress {
				stuck = true
				break
			}
		}
		if stuck {
			// No progress for a long time: a deadlock, or a machine so loaded that
			// this process is not being scheduled.  The goroutine dump tells them
			// apart: in a deadlock every goroutine that is inside internal/plugin is
			// *parked* on a lock and stays so; a goroutine that is runnable or
			// running there only needs the CPU.  Two dumps ten seconds apart, no
			// operation completed in between, nobody runnable in either.
			verdict := func() (parked, runnable int, frames string) {
				buf := make([]byte, 4<<20)
				buf = buf[:runtime.Stack(buf, true)]
				dump := string(buf)
				for _, g := range strings.Split(dump, "\n\n") {
					if !strings.Contains(g, "corerad/internal/plugin.") {
						continue
					}
					head := g
					if i := strings.IndexByte(g, '\n'); i >= 0 {
						head = g[:i]
					}
					switch {
					case strings.Contains(head, "[sync.RWMutex.RLock") || strings.Contains(head, "[sync.RWMutex.Lock") || strings.Contains(head, "[sync.Mutex.Lock") || strings.Contains(head, "[semacquire"):
						parked++
					default:
						runnable++
					}
				}
				return parked, runnable, c17LockFrames(dump)
			}
			p1, r1, _ := verdict()
			before := ops.Load()
			time.Sleep(10 * time.Second)
			p2, r2, frames := verdict()
			switch {
			case ops.Load() != before:
				r.Inconclusive(id, fmt.Sprintf("no operation completed for %v, then progress resumed: the machine is overloaded", c17NoProgress))
			case p1 > 0 && p2 > 0 && r1 == 0 && r2 == 0:
				r.Violation(id, "scrape-blocked-on-lock", fmt.Sprintf("no scrape, request or Prepare completed for %v after %d operations; every goroutine inside internal/plugin is parked on a lock, in two dumps 10 s apart (deadlock)", c17NoProgress, last),
					map[string]any{"mode(0=never prepared,1=failing expansion,2=loopback)": mode, "goroutines": vlib.TrimStack(frames)})
			default:
				r.Inconclusive(id, fmt.Sprintf("no progress for %v, but goroutines inside internal/plugin are runnable (%d, then %d) rather than parked (%d, then %d): starved of CPU, not deadlocked", c17NoProgress, r1, r2, p1, p2))
			}
			// the stuck goroutines cannot be recovered: leave them and end this shard's run
			r.Count("operations_completed", int(last))
			return
		}
		close(stop)
		wg.Wait()
		r.Count("operations_completed", int(ops.Load()))
	}
}

// c17NoProgress is how long no operation may complete before the goroutine
// dumps are consulted.
const c17NoProgress = 30 * time.Second

func c17LockFrames(dump string) string {
	var out []string
	for _, g := range strings.Split(dump, "\n\n") {
		if strings.Contains(g, "sync.(*RWMutex)") || strings.Contains(g, "sync.(*Mutex)") {
			lines := strings.Split(g, "\n")
			if len(lines) > 14 {
				lines = lines[:14]
			}
			out = append(out, strings.Join(lines, "\n"))
		}
		if len(out) >= 3 {
			break
		}
	}
	return strings.Join(out, "\n\n")
}
