//go:build verif

package corerad

import (
	"fmt"
	"github.com/mdlayher/ndp"
	"net"
	"net/netip"
	"os"
	"strings"
	"syscall"
	"testing"
	"time"

	"verif.local/model"
	"verif.local/vfake"
	"verif.local/vlib"
)

const vMinDelay = 3 * time.Second

// A c06Ev is one solicitation of a history.
type c06Ev struct {
	At      time.Duration // absolute, from trace start
	Unicast bool          // RS from a unicast source (no multicast trigger)
}

type c06Case struct {
	ID     string
	Min    time.Duration // 0 = default (min = max)
	Max    time.Duration
	Evs    []c06Ev
	Reinit time.Duration // 0 = none; link event at this instant
	Seed   time.Duration
	// Stall: the StallIdx-th multicast write (0 = the initial RA) blocks for
	// StallFor before the packet is on the wire.
	StallFor time.Duration
	StallIdx int
	// LateReturn: the LateIdx-th multicast write returns LateFor after the packet
	// is on the wire (the send token is still held, nothing is stamped yet).
	LateFor time.Duration
	LateIdx int
	// SlowUnicast: every write to a unicast destination takes this long.
	SlowUnicast time.Duration
	// Fail: the FailIdx-th multicast write (0 = the initial RA) fails with an
	// error of kind FailKind (a full transmit queue, as the socket reports it).
	FailKind string
	FailIdx  int
	// FailAll: the fault is persistent — every write of that connection from the
	// FailIdx-th multicast write on fails, unicast answers included.
	FailAll bool
	// FailUnicast: instead, the first unicast write of the connection fails (one
	// host that cannot be reached); multicast writes are unaffected.
	FailUnicast bool
}

func c06Err(kind string) error {
	switch kind {
	case "nobufs":
		return vfake.ErrSyscallBuf
	case "op-nobufs":
		return &net.OpError{Op: "write", Net: "ip6:ipv6-icmp", Err: os.NewSyscallError("sendmsg", syscall.ENOBUFS)}
	case "op-eagain":
		return &net.OpError{Op: "write", Net: "ip6:ipv6-icmp", Err: os.NewSyscallError("sendmsg", syscall.EAGAIN)}
	}
	return nil
}

// c06StallCheck: with a stalled transmission the wire instants are the
// write_end events; they must be MIN_DELAY_BETWEEN_RAS apart all the same.
func c06StallCheck(r *vlib.Run, c *c06Case, ev []vfake.Event) {
	type w struct {
		t    time.Duration
		gen  int
		life int64
		idx  int
	}
	var ws []w
	cancelIx := -1
	for i, e := range ev {
		switch {
		case e.Kind == "cancel" && cancelIx < 0:
			cancelIx = i
		case e.Kind == "write_end" && e.Dst == vAllNodes.String() && e.Err == "":
			ws = append(ws, w{e.T, e.Gen, e.Life, i})
		}
	}
	stalled := false
	for _, e := range ev {
		if e.Kind == "stall" {
			stalled = true
		}
	}
	if stalled {
		r.Count("stalled_transmissions", 1)
	}
	for i := 1; i < len(ws); i++ {
		a, b := ws[i-1], ws[i]
		if a.gen != b.gen || (cancelIx >= 0 && b.idx > cancelIx && b.life == 0) {
			continue
		}
		r.Count("multicast_gaps_checked_after_stall", 1)
		if b.t-a.t < vMinDelay {
			r.Violation(c.ID, "spacing-after-stall", fmt.Sprintf("multicast RAs were on the wire at %v and %v, %v apart (< 3s), after transmission %d had been stalled for %v", a.t, b.t, b.t-a.t, c.StallIdx, c.StallFor),
				map[string]any{"case": c, "trace": vfake.Strings(vOnly(ev, "write_begin", "write_end", "stall", "read_deliver", "cancel"), 80)})
			return
		}
	}
}

// ticks returns the known instants (relative to a generation's start) at
// which the periodic loop requests a multicast RA, up to limit.
func (c *c06Case) ticks(limit time.Duration) []time.Duration {
	var out []time.Duration
	if c.Min == 0 { // min = max: a tick every max seconds
		for t := time.Duration(0); t <= limit; t += c.Max {
			out = append(out, t)
		}
		return out
	}
	// min > 16 s: the first three waits are capped at 16 s.
	for i := 0; i <= 3; i++ {
		if t := time.Duration(i) * 16 * time.Second; t <= limit {
			out = append(out, t)
		}
	}
	return out
}

func (c *c06Case) horizon() time.Duration {
	if c.Min == 0 {
		return 1 << 62
	}
	return 48*time.Second + c.Min // after this tick times are no longer known
}

// c06Check applies oracles (S) and (L) to the multicast transmissions of a
// trace.  gens gives the start instants of each generation.
func c06Check(r *vlib.Run, c *c06Case, ev []vfake.Event, runReturned bool) {
	type tx struct {
		t    time.Duration
		idx  int
		gen  int
		life int64
	}
	var (
		cancelT  = time.Duration(-1)
		cancelIx = -1
		gens     = map[int]time.Duration{} // gen -> first write (initial RA)
		genEnd   = map[int]time.Duration{}
		mc       []tx
		trig     []tx // RS from ::
	)
	// a transmission the socket refused is not a transmission: it neither counts
	// for the spacing nor satisfies a trigger
	failed := map[string]bool{}
	for _, e := range ev {
		if e.Kind == "write_end" && e.Err != "" {
			failed[fmt.Sprintf("%d/%d", e.Gen, e.ID)] = true
		}
	}
	for i, e := range ev {
		switch e.Kind {
		case "cancel":
			if cancelT < 0 {
				cancelT, cancelIx = e.T, i
			}
		case "write_begin":
			if _, ok := gens[e.Gen]; !ok {
				gens[e.Gen] = e.T
			}
			if e.Dst == vAllNodes.String() && !failed[fmt.Sprintf("%d/%d", e.Gen, e.ID)] {
				mc = append(mc, tx{e.T, i, e.Gen, e.Life})
			}
		case "read_deliver":
			if e.Src == "::" && strings.Contains(e.Msg, "router solicitation") {
				trig = append(trig, tx{t: e.T, idx: i, gen: e.Gen})
			}
		case "dial":
			if e.Gen > 1 {
				genEnd[e.Gen-1] = e.T
			}
		case "link_event":
			for g := range gens {
				if _, ok := genEnd[g]; !ok {
					genEnd[g] = e.T
				}
			}
		}
	}
	end := func(gen int) time.Duration {
		e := time.Duration(1 << 62)
		if cancelT >= 0 {
			e = cancelT
		}
		if ge, ok := genEnd[gen]; ok && ge < e {
			e = ge
		}
		return e
	}
	det := func() map[string]any {
		return map[string]any{"case": c, "trace": vfake.Strings(vOnly(ev, "write_begin", "read_deliver", "cancel", "dial", "link_event", "run_return"), 80)}
	}
	// (S) spacing.
	for i := 1; i < len(mc); i++ {
		a, b := mc[i-1], mc[i]
		if a.gen != b.gen {
			continue
		}
		if cancelIx >= 0 && b.idx > cancelIx && b.life == 0 {
			continue // the single zero-lifetime RA on termination is exempt
		}
		r.Count("multicast_gaps_checked", 1)
		r.Min("min_multicast_gap_ns", int64(b.t-a.t))
		if vTiming && b.t-a.t < vMinDelay {
			r.Violation(c.ID, "spacing", fmt.Sprintf("multicast RAs at %v and %v are %v apart (< 3s)", a.t, b.t, b.t-a.t), det())
			return
		}
	}
	if !vTiming {
		return
	}
	// (L) liveness of every trigger.
	sat := func(t time.Duration, idx int, gen int) bool {
		if end(gen) < t+vMinDelay {
			return true // stopped or re-initialised before it was due
		}
		for _, m := range mc {
			if m.gen == gen && m.t >= t && m.t <= t+vMinDelay && (idx < 0 || m.idx > idx || m.t > t) {
				return true
			}
		}
		return false
	}
	for _, tg := range trig {
		r.Count("solicited_triggers_checked", 1)
		if !sat(tg.t, tg.idx, tg.gen) {
			r.Violation(c.ID, "trigger-unsatisfied", fmt.Sprintf("solicitation from :: at %v was not followed by a multicast RA within 3s", tg.t), det())
			return
		}
	}
	for g, start := range gens {
		limit := end(g) - start
		if h := c.horizon(); limit > h {
			limit = h
		}
		for _, tk := range c.ticks(limit) {
			r.Count("periodic_triggers_checked", 1)
			if !sat(start+tk, -1, g) {
				r.Violation(c.ID, "trigger-unsatisfied", fmt.Sprintf("periodic trigger at %v (generation %d) was not followed by a multicast RA within 3s", start+tk, g), det())
				return
			}
		}
	}
}

// c06Run executes one history against the real advertiser.
func c06Run(t *testing.T, r *vlib.Run, c *c06Case) {
	doc := vBaseDoc(c.Min, c.Max)
	if c.StallFor > 0 {
		// Deprecated options whose deadlines pass during the scenario (the epoch
		// is 24 h before the bubble's clock starts): an RA that has to wait —
		// for the send token, for the spacing — must carry the time remaining
		// when it is handed to the socket, not when somebody started working on it.
		day := int64(24 * time.Hour)
		f := &doc.Ifaces[0]
		f.Prefixes = append(f.Prefixes, model.PrefixSt{Prefix: model.MkCIDR("2001:db8:dead::/64"), Valid: model.D(day + int64(20*time.Second)), Preferred: model.D(day + int64(8*time.Second)), Deprecated: model.B(true)})
		f.Routes = append(f.Routes, model.RouteSt{Prefix: model.MkCIDR("2001:db8:beef::/48"), Lifetime: model.D(day + int64(12*time.Second)), Deprecated: model.B(true)})
	}
	ifi, exp, err := vParseOne(doc)
	if err != nil {
		r.Violation(c.ID, "harness", "base document rejected: "+err.Error(), nil)
		return
	}
	var ev []vfake.Event
	returned := false
	var runErr error
	staleAt, staleChecked := "", 0
	pm := vBubble(t, func() {
		h := vNewH(ifi, exp, c.Seed)
		if c.StallFor > 0 {
			h.connSetup = func(cn *vfake.Conn) {
				cn.OnWrite = func(_ int, dst netip.Addr, ra *ndp.RouterAdvertisement) {
					want := h.expectRA(true, ra.RouterLifetime == 0)
					got := model.FromNDP(ra)
					if d := model.DiffRA(want, got); d != "" && staleAt == "" {
						staleAt = fmt.Sprintf("RA handed to the socket at %v for %s: %s", h.tr.Now(), dst, d)
					}
					staleChecked++
				}
				k := 0
				cn.WriteLatencyOf = func(_ int, dst netip.Addr) time.Duration {
					if !dst.IsMulticast() {
						return 0
					}
					k++
					if k-1 == c.StallIdx {
						h.tr.Add(vfake.Event{Kind: "stall", Val: int64(c.StallFor)})
						return c.StallFor
					}
					return 0
				}
			}
		}
		if c.SlowUnicast > 0 {
			h.connSetup = func(cn *vfake.Conn) {
				cn.WriteLatencyOf = func(_ int, dst netip.Addr) time.Duration {
					if dst.IsMulticast() {
						return 0
					}
					return c.SlowUnicast
				}
			}
		}
		if c.LateFor > 0 {
			h.connSetup = func(cn *vfake.Conn) {
				k := 0
				cn.ReturnLatencyOf = func(_ int, dst netip.Addr) time.Duration {
					if !dst.IsMulticast() {
						return 0
					}
					k++
					if k-1 == c.LateIdx {
						h.tr.Add(vfake.Event{Kind: "late_return", Val: int64(c.LateFor)})
						return c.LateFor
					}
					return 0
				}
			}
		}
		if c.FailKind != "" {
			h.connSetup = func(cn *vfake.Conn) {
				if cn.Gen != 1 {
					return
				}
				k := 0
				broken := false
				cn.WriteErr = func(_ int, dst netip.Addr) error {
					if c.FailUnicast {
						if !dst.IsMulticast() && !broken {
							broken = true
							return c06Err(c.FailKind)
						}
						return nil
					}
					if dst.IsMulticast() {
						k++
						if k-1 == c.FailIdx {
							broken = c.FailAll
							return c06Err(c.FailKind)
						}
					}
					if broken {
						return c06Err(c.FailKind)
					}
					return nil
				}
			}
		}
		h.startAdvertiser()
		last := time.Duration(0)
		reinitDone := c.Reinit == 0
		for i, e := range c.Evs {
			if !reinitDone && c.Reinit <= e.At {
				h.at(c.Reinit)
				h.tr.Add(vfake.Event{Kind: "link_event"})
				h.watchC <- 2 // netstate.LinkDown
				reinitDone = true
			}
			h.at(e.At)
			src := netip.IPv6Unspecified()
			if e.Unicast {
				src = netip.MustParseAddr(fmt.Sprintf("fe80::%x", 0x100+i))
			}
			h.rs(src, i%2 == 0)
			last = e.At
		}
		if !reinitDone {
			h.at(c.Reinit)
			h.tr.Add(vfake.Event{Kind: "link_event"})
			h.watchC <- 2
			if c.Reinit > last {
				last = c.Reinit
			}
		}
		h.at(last + 7*time.Second)
		h.stop(true)
		returned = h.waitRun(vWatchdog)
		runErr = h.runErr
		time.Sleep(5 * time.Second)
		h.settle()
		ev = h.tr.Events()
		// content: every RA must be the configured one
		for _, e := range ev {
			if e.Kind != "write_begin" || e.RA == nil || c.StallFor > 0 {
				continue // (stall scenarios compare each RA at the moment it is transmitted)
			}
			want := h.expectRA(true, e.Life == 0)
			if d := model.DiffRA(want, *e.RA); d != "" {
				r.Violation(c.ID, "ra-content", "transmitted RA differs from the configuration: "+d, map[string]any{"case": c})
				break
			}
		}
	})
	if pm != "" {
		r.Violation(c.ID, "bubble-panic", "scenario ended with: "+pm, map[string]any{"case": c, "trace": vfake.Strings(ev, 60)})
		return
	}
	if !returned {
		r.Violation(c.ID, "no-return", "Run had not returned 200 virtual seconds after cancel", map[string]any{"case": c, "trace": vfake.Strings(ev, 60)})
		return
	}
	if runErr != nil {
		r.Violation(c.ID, "run-error", "Run returned an error on cancel: "+runErr.Error(), map[string]any{"case": c})
	}
	r.Count("events_observed", len(ev))
	r.Distinct("trace_signatures", vfake.Signature(vOnly(ev, "write_begin", "read_deliver", "cancel", "dial")))
	if c.StallFor > 0 {
		if r.Prop == "C16" {
			r.Count("ras_compared_at_transmission", staleChecked)
			if staleAt != "" {
				r.Violation(c.ID, "stale-ra-transmitted", "an RA carries lifetimes of an earlier moment than its transmission (deprecated prefix / route): "+staleAt, map[string]any{"case": c})
			}
			r.Nontrivial(c.ID)
			return
		}
		c06StallCheck(r, c, ev)
		r.Nontrivial(c.ID)
		return
	}
	if c.LateFor > 0 {
		c06StallCheck(r, c, ev) // spacing of the packets on the wire
		c06LateCheck(r, c, ev)
		r.Nontrivial(c.ID)
		return
	}
	if c.SlowUnicast > 0 {
		c06StallCheck(r, c, ev)
		c06LateCheck(r, c, ev) // LateFor = 0: within MIN_DELAY_BETWEEN_RAS of the trigger
		r.Nontrivial(c.ID)
		return
	}
	c06Check(r, c, ev, returned)
	// non-trivial: two triggers closer than 3 s, or a trigger < 3 s after a transmission
	nt := false
	var prevTrig time.Duration = -1 << 62
	for _, e := range c.Evs {
		if e.Unicast {
			continue
		}
		if e.At-prevTrig < vMinDelay {
			nt = true
		}
		prevTrig = e.At
		for _, x := range ev {
			if x.Kind == "write_begin" && x.Dst == vAllNodes.String() && x.T <= e.At && e.At-x.T < vMinDelay {
				nt = true
			}
		}
	}
	if nt {
		r.Nontrivial(c.ID)
	}
	if r.WantSample() && nt && len(c.Evs) >= 3 {
		r.Sample(map[string]any{"case": c, "trace": vfake.Strings(vOnly(ev, "write_begin", "read_deliver", "cancel"), 30)})
	}
}

var c06Grid = []time.Duration{0, vMs, 1500 * vMs, vMinDelay - vMs, vMinDelay, vMinDelay + vMs, 4500 * vMs, 6 * time.Second, 6*time.Second + vMs}
var c06GridThorough = []time.Duration{0, vMs, vMinDelay - vMs, vMinDelay, vMinDelay + vMs}

// TestVerifC06 — multicast RAs are rate limited to one per 3 s and every
// trigger is satisfied within 3 s.
func TestVerifC06(t *testing.T) {
	prop := "C06"
	if os.Getenv("VERIF_PROP") == "C16" {
		// C16's `transmit` part: the stall family only, judged on what each RA
		// carries at the moment it is transmitted
		prop = "C16"
	}
	r := vlib.Start(prop, os.Getenv("VERIF_PART"))
	defer r.Finish()
	if r.Part == "" {
		r.Part = "det"
	}
	if prop == "C16" {
		c06StallFamily(r, func(c *c06Case) {
			if r.Mine(c.ID) {
				r.Begin(c.ID)
				c06Run(t, r, c)
			}
		})
		return
	}

	run := func(c *c06Case) {
		if !r.Mine(c.ID) {
			return
		}
		r.Begin(c.ID)
		c06Run(t, r, c)
	}

	if r.Part == "det" {
		// Bounded-exhaustive histories on the grid around the initial RA (anchor
		// 0) and around the 16 s tick.
		type plan struct {
			depth int
			grid  []time.Duration
		}
		plans := []plan{{3, c06Grid}}
		if !r.Quick() {
			// all histories of <=5 events on the 9-point grid and of <=6 events on
			// the 5-point grid around the 3 s boundary
			plans = []plan{{5, c06Grid}, {6, c06GridThorough}}
		}
		for _, pl := range plans {
			depth, grid := pl.depth, pl.grid
			for _, anchor := range []time.Duration{0, 16 * time.Second} {
				var rec func(prefix []c06Ev, at time.Duration, name string)
				rec = func(prefix []c06Ev, at time.Duration, name string) {
					if len(prefix) > 0 {
						c := &c06Case{ID: fmt.Sprintf("grid%d/%v%s", len(grid), anchor, name), Min: 20 * time.Second, Max: 30 * time.Second, Evs: append([]c06Ev(nil), prefix...), Seed: time.Duration(len(name)) * 7919}
						run(c)
					}
					if len(prefix) == depth {
						return
					}
					for gi, g := range grid {
						for k := 0; k < 2; k++ {
							rec(append(prefix, c06Ev{At: at + g, Unicast: k == 1}), at+g, fmt.Sprintf("%s/%d%c", name, gi, "mu"[k]))
						}
					}
				}
				rec(nil, anchor, "")
			}
		}
	}

	if r.Part == "det" {
		// A scheduled multicast RA that the socket refuses (transmit queue full):
		// whatever the daemon does about the error, the triggers it was meant to
		// answer must still be answered within 3 s unless the interface is
		// re-initialised first (which sends a fresh initial RA).
		offs := []time.Duration{vMs, time.Second, 2900 * vMs, 3100 * vMs}
		for _, idx := range []int{1, 2, 3} {
			for _, kind := range []string{"nobufs", "op-nobufs", "op-eagain"} {
				base := time.Duration(idx-1) * 4 * time.Second
				for i, o := range offs {
					for _, min := range []time.Duration{0, 20 * time.Second} {
						max := 4 * time.Second
						if min != 0 {
							max, base = 30*time.Second, 0
						}
						c := &c06Case{ID: fmt.Sprintf("sendfail/%d/%s/%d/%v", idx, kind, i, min), Min: min, Max: max, FailKind: kind, FailIdx: idx,
							Evs: []c06Ev{{At: base + o}, {At: base + o + 3500*vMs, Unicast: true}}, Seed: time.Duration(i*53 + idx)}
						if r.Mine(c.ID) {
							r.Count("send_failure_scenarios", 1)
						}
						run(c)
						// the same with a persistent fault and a unicast solicitation whose
						// answer is outstanding when the multicast RA is refused: two sends
						// fail together
						c2 := *c
						c2.ID, c2.FailAll = c.ID+"/persistent", true
						c2.Evs = []c06Ev{{At: base + o}, {At: base + o + time.Duration(i+1)*7*vMs, Unicast: true}, {At: base + o + 2*time.Second, Unicast: true}}
						if r.Mine(c2.ID) {
							r.Count("send_failure_scenarios", 1)
						}
						run(&c2)
					}
				}
			}
		}
	}

	// One host cannot be reached: the unicast answer to its solicitation fails,
	// shortly after a multicast RA (the answer to a solicitation from ::).  Whatever
	// the advertiser does about it, no multicast RA of that connection may follow
	// the previous one by less than MIN_DELAY_BETWEEN_RAS.
	for ki, kind := range []string{"nobufs", "op-nobufs", "op-eagain"} {
		for oi, off := range []time.Duration{600 * vMs, 1200 * vMs, 2 * time.Second} {
			for mi, min := range []time.Duration{0, 22 * time.Second} {
				max, base := 4*time.Second, 4*time.Second
				if min != 0 {
					max, base = 30*time.Second, 8*time.Second
				}
				c := &c06Case{ID: fmt.Sprintf("unicastfail/%s/%d/%d", kind, oi, mi), Min: min, Max: max, FailKind: kind, FailUnicast: true,
					Evs: []c06Ev{{At: base}, {At: base + off, Unicast: true}, {At: base + off + 5*time.Second}}, Seed: time.Duration(ki*11 + oi*3 + mi)}
				if r.Mine(c.ID) {
					r.Count("unicast_failure_scenarios", 1)
				}
				run(c)
			}
		}
	}

	if r.Part == "det" {
		c06StallFamily(r, run)
		c06LateFamily(r, run)
		c06SlowUnicastFamily(r, run)
	}

	// Random long bursty histories, both tick regimes, with and without a
	// re-initialisation inside the burst.
	rr := r.Rand("c06", "random")
	n := r.Pick(500, 100000)
	if r.Part != "det" {
		n = r.Pick(300, 2000)
	}
	for i := 0; i < n; i++ {
		c := &c06Case{ID: fmt.Sprintf("rand/%d", i), Seed: time.Duration(rr.Int63n(1e9))}
		if rr.Intn(2) == 0 {
			c.Min, c.Max = 0, time.Duration(4+rr.Intn(5))*time.Second
		} else {
			c.Min = time.Duration(17+rr.Intn(6)) * time.Second
			c.Max = c.Min*4/3 + time.Duration(1+rr.Intn(6))*time.Second
		}
		m := 5 + rr.Intn(56)
		at := time.Duration(rr.Int63n(int64(20 * time.Second)))
		for k := 0; k < m; k++ {
			switch rr.Intn(4) {
			case 0:
				at += c06Grid[rr.Intn(len(c06Grid))]
			case 1:
				at += time.Duration(rr.Int63n(int64(400 * vMs)))
			case 2:
				// same instant burst
			default:
				at += time.Duration(rr.Int63n(int64(4 * time.Second)))
			}
			c.Evs = append(c.Evs, c06Ev{At: at, Unicast: rr.Intn(4) == 0})
			if c.Min != 0 && at > 40*time.Second {
				break
			}
		}
		if rr.Intn(4) == 0 && len(c.Evs) > 2 {
			c.Reinit = c.Evs[len(c.Evs)/2].At + time.Duration(rr.Int63n(int64(time.Second)))
		}
		run(c)
	}
}

// c06StallFamily enumerates the scenarios in which one multicast transmission
// blocks while further triggers arrive (shared by C06 and by C16's transmit part).
func c06StallFamily(r *vlib.Run, run func(c *c06Case)) {
	// A transmission that blocks (a full socket buffer, a frozen process)
	// while further multicast triggers arrive.  Ticks every 4 s: the write
	// with index k begins at about 4k s when nothing else is requested.
	offs := []time.Duration{vMs, time.Second, 2900 * vMs, 3100 * vMs, 4900 * vMs, 5100 * vMs, 7 * time.Second}
	for _, idx := range []int{0, 1, 2} {
		for _, sf := range []time.Duration{3500 * vMs, 5 * time.Second, 9 * time.Second} {
			base := time.Duration(idx) * 4 * time.Second
			for i, o1 := range offs {
				run(&c06Case{ID: fmt.Sprintf("stall/%d/%v/%d", idx, sf, i), Max: 4 * time.Second, StallFor: sf, StallIdx: idx,
					Evs: []c06Ev{{At: base + o1}}, Seed: time.Duration(i*31 + idx)})
				for j, o2 := range offs[i:] {
					run(&c06Case{ID: fmt.Sprintf("stall/%d/%v/%d+%d", idx, sf, i, j), Max: 4 * time.Second, StallFor: sf, StallIdx: idx,
						Evs: []c06Ev{{At: base + o1}, {At: base + o1 + o2, Unicast: j%3 == 2}}, Seed: time.Duration(i*31 + j)})
				}
			}
		}
	}
}

// c06LateFamily: a multicast transmission whose system call returns only some
// time after the packet is on the wire, and a solicitation from :: that arrives
// in between - after the only RA it could have counted on.  The intervals are
// long (16 s at first, then 22-30 s), so nothing else answers it for a while.
func c06LateFamily(r *vlib.Run, run func(c *c06Case)) {
	for _, idx := range []int{1, 2} {
		for _, lf := range []time.Duration{40 * vMs, 700 * vMs, 2500 * vMs} {
			for fi, frac := range []int{1, 2, 9} {
				// multicast write 1 (the first request, spaced behind the initial RA) is
				// on the wire at 3 s, write 2 (after the first wait, capped at 16 s) at 16 s
				wire := []time.Duration{0, 3 * time.Second, 16 * time.Second}[idx]
				at := wire + lf*time.Duration(frac)/10
				run(&c06Case{ID: fmt.Sprintf("latereturn/%d/%v/%d", idx, lf, fi), Min: 22 * time.Second, Max: 30 * time.Second, LateFor: lf, LateIdx: idx,
					Evs: []c06Ev{{At: at}}, Seed: time.Duration(fi*17 + idx)})
			}
		}
	}
}

// c06SlowUnicastFamily: the answer to a unicast solicitation takes seconds to
// leave (a neighbour that does not resolve, a full queue towards one host);
// a solicitation from :: arrives meanwhile.  Its multicast answer is due at once
// (the last multicast RA is long ago) and has nothing to do with that host.
func c06SlowUnicastFamily(r *vlib.Run, run func(c *c06Case)) {
	for li, lat := range []time.Duration{4 * time.Second, 7 * time.Second} {
		for oi, off := range []time.Duration{600 * vMs, 1500 * vMs, 3 * time.Second} {
			run(&c06Case{ID: fmt.Sprintf("slowunicast/%d/%d", li, oi), Min: 22 * time.Second, Max: 30 * time.Second, SlowUnicast: lat,
				Evs: []c06Ev{{At: 8 * time.Second, Unicast: true}, {At: 8*time.Second + off}}, Seed: time.Duration(li*5 + oi)})
		}
	}
}

// c06LateCheck: every solicitation from :: is followed by a multicast RA on
// the wire within MIN_DELAY_BETWEEN_RAS of the moment the late call returned
// (the spacing is counted from there), i.e. within 3 s + the return latency.
func c06LateCheck(r *vlib.Run, c *c06Case, ev []vfake.Event) {
	var wires []time.Duration
	for _, e := range ev {
		if e.Kind == "write_end" && e.Dst == vAllNodes.String() && e.Err == "" {
			wires = append(wires, e.T)
		}
	}
	late := false
	for _, e := range ev {
		if e.Kind == "late_return" {
			late = true
		}
	}
	if !late && c.LateFor > 0 {
		r.Count("late_return_not_reached", 1)
		return
	}
	for i, e := range ev {
		if e.Kind != "read_deliver" || e.Src != "::" {
			continue
		}
		// a multicast RA on the wire AFTER the solicitation was read (later in the
		// trace; the same virtual instant is fine) and in time
		ok := false
		for _, x := range ev[i+1:] {
			if x.Kind == "write_end" && x.Dst == vAllNodes.String() && x.Err == "" && x.T <= e.T+vMinDelay+c.LateFor {
				ok = true
			}
		}
		if c.SlowUnicast > 0 {
			r.Count("triggers_during_a_slow_unicast_transmission", 1)
		} else {
			r.Count("triggers_after_a_transmission_still_returning", 1)
		}
		if !ok && c.SlowUnicast > 0 {
			r.Violation(c.ID, "trigger-unsatisfied", fmt.Sprintf("solicitation from :: at %v (while a unicast RA was being transmitted for %v) was not followed by a multicast RA within 3s", e.T, c.SlowUnicast),
				map[string]any{"case": c, "multicast_on_wire": fmt.Sprint(wires), "trace": vfake.Strings(vOnly(ev, "write_begin", "write_end", "read_deliver", "cancel"), 60)})
			return
		}
		if !ok {
			r.Violation(c.ID, "trigger-unsatisfied", fmt.Sprintf("solicitation from :: at %v (after a multicast RA was on the wire, while its system call was still returning for %v) was not followed by a multicast RA within 3s + %v", e.T, c.LateFor, c.LateFor),
				map[string]any{"case": c, "multicast_on_wire": fmt.Sprint(wires), "trace": vfake.Strings(vOnly(ev, "write_begin", "write_end", "late_return", "read_deliver", "cancel"), 60)})
			return
		}
	}
}
