//go:build verif

package corerad

import (
	"fmt"
	"math/rand"
	"os"
	"strings"
	"testing"
	"time"

	"verif.local/vfake"
	"verif.local/vlib"
)

// regime draws one of the two periodic regimes with known tick instants.
func vRegime(rr *rand.Rand) (min, max time.Duration) {
	if rr.Intn(2) == 0 {
		return 0, time.Duration(4+rr.Intn(5)) * time.Second
	}
	min = time.Duration(17+rr.Intn(6)) * time.Second
	return min, min*4/3 + time.Duration(1+rr.Intn(6))*time.Second
}

func vSrc(kind, i int) string {
	switch kind {
	case 0:
		return fmt.Sprintf("fe80::1:%x:%x", (i+1)>>16, (i+1)&0xffff)
	case 1:
		return fmt.Sprintf("2001:db8::c:%x:%x", (i+1)>>16, (i+1)&0xffff)
	case 2:
		return fmt.Sprintf("fe80::aa:%x", i%3+1) // repeated sources
	}
	return "::"
}

func vRunCommon(r *vlib.Run, c *advCase, res *advResult) bool {
	if res.panicMsg != "" {
		cls := "bubble-panic"
		if strings.Contains(res.panicMsg, "all goroutines in bubble are blocked") {
			cls = "deadlock"
		}
		r.Violation(c.ID, cls, "scenario ended with: "+res.panicMsg, advDetail(c, res.ev))
		return false
	}
	if res.leak {
		r.Count("scenarios_with_leaked_goroutines", 1)
		if r.Prop == "C08" || r.Prop == "C10" {
			// Run has returned and ten more virtual seconds have passed (longer than
			// any wait the task makes: 3 s spacing, 500 ms delay, 200 ms back-off),
			// yet goroutines it started are still parked: the task has not stopped
			// every activity together.
			r.Violation(c.ID, "goroutine-left-behind", "goroutines started by the task are still blocked 10 s (virtual) after Run returned", advDetail(c, res.ev))
			return false
		}
	}
	r.Count("events_observed", len(res.ev))
	r.Distinct("trace_signatures", vfake.Signature(vOnly(res.ev, "write_begin", "read_deliver", "read_error", "cancel", "dial", "run_return", "link_event")))
	return true
}

// TestVerifC07 — each valid RS answered exactly once, right destination, in
// time; counters conserve.
func TestVerifC07(t *testing.T) {
	r := vlib.Start("C07", vPart("det"))
	defer r.Finish()
	rr := r.Rand("c07", r.Part)
	n := r.Pick(1000, 400000)
	if r.Part != "det" {
		n = r.Pick(150, 6000)
	}
	for i := 0; i < n; i++ {
		c := &advCase{ID: fmt.Sprintf("hist/%d", i), Fwd: true, Terminate: true, Seed: time.Duration(rr.Int63n(1e9))}
		c.MACPerGen = i%3 == 1 // the hardware address differs from one dial to the next
		c.Min, c.Max = vRegime(rr)
		c.UnicastOnly = rr.Intn(3) == 0
		m := 5 + rr.Intn(36)
		at := time.Duration(rr.Int63n(int64(10 * time.Second)))
		burst := rr.Intn(5) == 0
		for k := 0; k < m; k++ {
			switch {
			case burst && k < 20:
				// 17+ solicitations in one instant fill the 16-slot request channel
			case rr.Intn(3) == 0:
				at += time.Duration(rr.Int63n(int64(50 * vMs)))
			default:
				at += time.Duration(rr.ExpFloat64() * float64(700*vMs))
			}
			kind := rr.Intn(4)
			c.Steps = append(c.Steps, advStep{At: at, Kind: "rs", Src: vSrc(kind, k), SLLA: rr.Intn(2) == 0})
			if c.Min != 0 && at > 35*time.Second {
				break
			}
		}
		if rr.Intn(8) == 0 {
			c.WriteErrKind, c.WriteErrN = "nobufs", rr.Intn(4)
		}
		c.StopAt = at + time.Duration(rr.Int63n(int64(3*time.Second)))
		c.ReportK1 = true
		if i%10 == 3 {
			// several transmissions in flight fail together: a slow socket (600 ms,
			// longer than the spread of the random delays) that starts failing
			c.ID = fmt.Sprintf("multifail/%d", i)
			c.UnicastOnly, c.WriteErrN = i%20 == 3, 0
			c.WriteLat = 600 * vMs
			c.WriteErrKind, c.WriteErrAll = []string{"nobufs", "other"}[i/10%2], true
			t0 := 5 * time.Second
			c.WriteErrAfter = t0
			c.Steps = nil
			for k := 0; k < 2+rr.Intn(4); k++ {
				c.Steps = append(c.Steps, advStep{At: t0 + time.Duration(k)*vMs, Kind: "rs", Src: vSrc(0, k)})
			}
			c.Steps = append(c.Steps, advStep{At: t0 + 4*time.Second, Kind: "rs", Src: vSrc(1, 77)})
			c.StopAt = t0 + 7*time.Second
		}
		if i%10 == 6 {
			// the forwarding sysctl is unreadable for a while (the interface is being
			// reconfigured; four shapes of error) and a solicitation arrives meanwhile:
			// whatever the task does about the fault - end, be re-established - it does
			// not go on as if nothing had happened with the solicitation lost
			c.ID = fmt.Sprintf("sysctlfault/%d", i)
			c.UnicastOnly, c.WriteErrKind, c.MACPerGen = i%20 == 6, "", false
			c.Min, c.Max = 20*time.Second, 30*time.Second
			shape := []string{"", "notexist", "perm", "other"}[i/10%4]
			t0 := 5*time.Second + time.Duration(rr.Int63n(int64(3*time.Second)))
			c.Steps = []advStep{{At: t0 - 2*time.Second, Kind: "rs", Src: vSrc(0, 1)},
				{At: t0, Kind: "fwderr", On: true, Err: shape}, {At: t0 + 50*vMs, Kind: "rs", Src: vSrc(0, 2)},
				{At: t0 + 1500*vMs, Kind: "fwderr", On: false}, {At: t0 + 2500*vMs, Kind: "rs", Src: vSrc(1, 3)}}
			if i%20 == 16 {
				// what arrives during the fault is a neighbouring router's RA: checking it
				// needs CoreRAD's own RA, which cannot be built just then; the message was
				// received and validated all the same
				c.Steps[2] = advStep{At: t0 + 50*vMs, Kind: "msg", Msg: "ra", Src: "fe80::c0:1", Hop: 255}
				r.Count("sysctl_fault_histories_with_peer_ra", 1)
			}
			c.StopAt = t0 + 5*time.Second
			r.Count("sysctl_fault_histories", 1)
		}
		if r.Part != "det" && i%3 == 0 {
			// K1 reproducer: a solicitation delivered in the very instant the
			// delayed first periodic RA (t = 3 s) fires, then silence.
			c.ID = fmt.Sprintf("k1/%d", i)
			c.Min, c.Max, c.UnicastOnly, c.WriteErrKind = 20*time.Second, 30*time.Second, false, ""
			c.Steps = []advStep{{At: 3 * time.Second, Kind: "rs", Src: vSrc(0, i)}}
			if i%2 == 0 {
				c.Steps = append(c.Steps, advStep{At: 3 * time.Second, Kind: "rs", Src: vSrc(1, i)})
			}
			c.StopAt = 6 * time.Second
		}
		if !r.Mine(c.ID) {
			continue
		}
		r.Begin(c.ID)
		res := advRun(t, c)
		if !vRunCommon(r, c, res) {
			continue
		}
		_, exp, _ := vParseOne(c.doc())
		if !advContent(r, c, res, exp) {
			continue
		}
		advC07(r, c, res)
		if vTiming && c.WriteLat == 0 && c.WriteErrKind == "" {
			cc := &c06Case{ID: c.ID, Min: c.Min, Max: c.Max}
			if !c.UnicastOnly {
				c06Check(r, cc, res.ev, res.returned)
			}
		}
		r.Nontrivial(c.ID)
		if r.WantSample() && i%50 == 7 {
			r.Sample(map[string]any{"case_id": c.ID, "unicast_only": c.UnicastOnly, "steps": len(c.Steps), "trace": vfake.Strings(vOnly(res.ev, "write_begin", "read_deliver", "cancel", "run_return"), 24)})
		}
	}
}

// TestVerifC08 — on termination exactly one zero-lifetime RA, last; on reload
// none; prompt; silent after return.
func TestVerifC08(t *testing.T) {
	r := vlib.Start("C08", vPart("det"))
	defer r.Finish()
	rr := r.Rand("c08", r.Part)
	n := r.Pick(480, 200000)
	if r.Part != "det" {
		n = r.Pick(150, 5000)
	}
	lats := []time.Duration{0, vMs, 2 * vMs, 5 * vMs}
	// transmit latencies from 1 ms to several seconds: a stop must wait for a
	// transmission in flight however slow the socket is
	slow := []time.Duration{vMs, 5 * vMs, 499 * vMs, 501 * vMs, 800 * vMs, 2 * time.Second, 7 * time.Second}
	for i := 0; i < n; i++ {
		c := &advCase{ID: fmt.Sprintf("stop/%d", i), Fwd: true, Terminate: i%2 == 0, Seed: time.Duration(rr.Int63n(1e9)), Min: 20 * time.Second, Max: 30 * time.Second}
		c.MACPerGen = i%3 == 1 // the hardware address differs from one dial to the next
		c.UnicastOnly = rr.Intn(8) == 0
		class := i / 2 % 7
		t0 := 5*time.Second + time.Duration(rr.Int63n(int64(5*time.Second)))
		switch class {
		case 0: // idle
			c.StopAt = t0
			if rr.Intn(2) == 0 {
				c.Steps = append(c.Steps, advStep{At: t0 - 2*time.Second, Kind: "rs", Src: vSrc(0, i)})
			}
		case 1: // response pending in its random delay (unicast) or in the 3 s wait (multicast)
			src := vSrc(rr.Intn(4), i)
			c.Steps = append(c.Steps, advStep{At: t0, Kind: "rs", Src: src})
			c.StopAt = t0 + []time.Duration{0, time.Nanosecond, vMs, 100 * vMs, 499 * vMs}[rr.Intn(5)]
			if src == "::" {
				c.StopAt = t0 + time.Duration(rr.Int63n(int64(3*time.Second)))
			}
		case 2: // transmission in flight: stop inside the State read or the socket write of a worker
			c.FwdLat, c.WriteLat = lats[1+rr.Intn(3)], lats[1+rr.Intn(3)]
			if rr.Intn(2) == 0 {
				c.WriteLat = slow[rr.Intn(len(slow))]
			}
			if rr.Intn(4) == 0 {
				c.FwdLat = slow[rr.Intn(len(slow))]
			}
			c.Steps = append(c.Steps, advStep{At: t0, Kind: "rs", Src: vSrc(rr.Intn(2), i)})
			if rr.Intn(3) == 0 {
				c.Steps = append(c.Steps, advStep{At: t0, Kind: "rs", Src: vSrc(1, i+1)})
			}
			c.StopHook = []string{"fwd", "write"}[rr.Intn(2)]
			c.StopHookAfter = t0
			lim := c.FwdLat
			if c.StopHook == "write" {
				lim = c.WriteLat
			}
			c.StopHookDelay = time.Duration(rr.Int63n(int64(lim)))
			c.StopAt = t0 + 2*time.Second
		case 3: // periodic transmission in flight at the 16 s tick
			c.FwdLat, c.WriteLat = lats[1+rr.Intn(3)], lats[1+rr.Intn(3)]
			if rr.Intn(2) == 0 {
				c.WriteLat = slow[rr.Intn(len(slow))]
			}
			c.StopAt = 16*time.Second + time.Duration(rr.Int63n(int64(c.FwdLat+c.WriteLat)+1))
			if c.UnicastOnly {
				c.StopAt = t0
			}
		case 5: // several slow transmissions in flight at the stop request, all of which then fail
			c.WriteLat = []time.Duration{600 * vMs, time.Second, 3 * time.Second}[rr.Intn(3)]
			c.WriteErrKind, c.WriteErrAfter, c.WriteErrAll, c.WriteErrUnicast = []string{"nobufs", "other", "perm"}[rr.Intn(3)], t0, true, true
			for j, k := 0, 2+rr.Intn(3); j < k; j++ {
				c.Steps = append(c.Steps, advStep{At: t0 + time.Duration(j)*vMs, Kind: "rs", Src: vSrc(j%2, i+j)})
			}
			// every answer has begun by t0+500ms+k ms and none has finished before t0+600ms
			c.StopAt = t0 + 520*vMs + time.Duration(rr.Int63n(int64(70*vMs)))
		case 6: // stop while a multicast RA is being held back for the minimum spacing:
			// the periodic RA of the 16 s tick is on the wire late (stalled socket),
			// a solicitation from :: arrives meanwhile, and its answer has to wait
			// 3 s from the late transmission; the stop request falls into that wait
			c.UnicastOnly = false
			c.StallMC, c.StallFor = 3, []time.Duration{3500 * vMs, 5 * time.Second, 8 * time.Second}[rr.Intn(3)]
			c.Steps = append(c.Steps, advStep{At: 16*time.Second + time.Duration(1+rr.Int63n(int64(c.StallFor-time.Second))), Kind: "rs", Src: "::"})
			c.StopAt = 16*time.Second + c.StallFor + time.Duration(1+rr.Int63n(int64(3*time.Second-2)))
		case 4: // solicitation arriving in the same instant as the stop request
			c.FwdLat, c.WriteLat = lats[rr.Intn(4)], lats[rr.Intn(4)]
			c.StopAt = t0
			k := 1 + rr.Intn(3)
			if i%28 == 8 || i%28 == 9 {
				// a burst larger than the 16-slot request queue in the very instant
				// of the stop request
				k = 17 + rr.Intn(30)
				c.DeadlineLat = []time.Duration{time.Nanosecond, vMs}[rr.Intn(2)]
			}
			for j := 0; j < k; j++ {
				at := t0
				if rr.Intn(2) == 0 {
					at = t0 + time.Nanosecond // processed just after the request
				}
				c.Steps = append(c.Steps, advStep{At: at, Kind: "rs", Src: vSrc(rr.Intn(4), i+j)})
			}
			sortSteps(c.Steps)
		}
		if i%14 == 11 || i%14 == 12 {
			// the link watcher halts in the same instant (its context is the
			// server's, so on a signal it closes every subscription while the tasks
			// are being stopped): a closed subscription is not a link change
			c.Steps = append(c.Steps, advStep{At: c.StopAt + time.Duration(i%2), Kind: "watchclose"})
			sortSteps(c.Steps)
		}
		c.Dynamic = i%5 == 2 && c.FwdLat == 0
		switch i % 10 {
		case 3, 4: // the interface is not forwarding at all
			c.Fwd = false
		case 7, 8: // forwarding is switched off shortly before the stop: hosts hold a default route
			if c.StopAt > 2*time.Second && c.StopHook == "" {
				c.Steps = append(c.Steps, advStep{At: c.StopAt - time.Duration(1+rr.Int63n(int64(time.Second))), Kind: "fwd", On: false})
				sortSteps(c.Steps)
			}
		}
		if !r.Mine(c.ID) {
			continue
		}
		r.Begin(c.ID)
		res := advRun(t, c)
		if !vRunCommon(r, c, res) {
			continue
		}
		_, exp, _ := vParseOne(c.doc())
		if !advContent(r, c, res, exp) {
			continue
		}
		advC08(r, c, res)
		advC07(r, c, res)
		cl := advClass(c, res.ev)
		if c.StallMC > 0 {
			// confirmed from the trace: the request came after the stalled packet was
			// on the wire and before anything else was transmitted
			var stallEnd, cancelT time.Duration = -1, -1
			stalled := false
			quiet := true
			for _, e := range res.ev {
				switch {
				case e.Kind == "stall":
					stalled = true
				case e.Kind == "write_end" && stalled && stallEnd < 0 && e.Dst == vAllNodes.String():
					stallEnd = e.T
				case e.Kind == "cancel" && cancelT < 0:
					cancelT = e.T
				case e.Kind == "write_begin" && stallEnd >= 0 && cancelT < 0:
					quiet = false
				}
			}
			if stallEnd >= 0 && cancelT > stallEnd && cancelT < stallEnd+3*time.Second && quiet {
				cl = "spacing-wait"
			}
		}
		r.Count("class_"+cl, 1)
		r.Count(fmt.Sprintf("terminate_%v", c.Terminate), 1)
		if cl != "idle" {
			r.Nontrivial(c.ID)
		}
		if c.DeadlineLat > 0 && os.Getenv("VERIF_DEBUG") != "" {
			fmt.Println("DEBUG2", c.ID, cl, len(c.Steps), vfake.Strings(vOnly(res.ev, "read_deliver", "deadline", "cancel", "run_return", "write_begin"), 70))
		}
		if c.StallMC > 0 && os.Getenv("VERIF_DEBUG") != "" {
			fmt.Println("DEBUG", c.ID, cl, c.StallFor, c.StopAt, vfake.Strings(vOnly(res.ev, "write_begin", "write_end", "stall", "read_deliver", "cancel", "run_return"), 40))
		}
		if r.WantSample() && cl == "in-flight" {
			r.Sample(map[string]any{"case": c, "class": cl, "trace": vfake.Strings(vOnly(res.ev, "write_begin", "write_end", "fwd_read_begin", "read_deliver", "cancel", "terminate_read", "run_return"), 30)})
		}
	}
}

// TestVerifC09 — invalid NDP messages are counted, ignored and never disrupt
// service (advertiser part; the monitor part is in c18_test.go).
func TestVerifC09(t *testing.T) {
	r := vlib.Start("C09", vPart("det"))
	defer r.Finish()
	types := []string{"rs", "ra", "ns", "na"}
	typeName := map[string]string{"rs": "router solicitation", "ra": "router advertisement", "ns": "neighbor solicitation", "na": "neighbor advertisement"}

	run := func(c *advCase) {
		if !r.Mine(c.ID) {
			return
		}
		r.Begin(c.ID)
		res := advRun(t, c)
		if !vRunCommon(r, c, res) {
			return
		}
		det := func() map[string]any { return advDetail(c, res.ev) }
		// expected invalid counts by type, expected hook calls
		wantInvalid := map[string]int{}
		wantHook, invalidTotal := 0, 0
		for _, e := range res.ev {
			if e.Kind != "read_deliver" {
				continue
			}
			typ := e.Msg
			isRSRA := strings.Contains(typ, "router")
			if e.Val != 255 || !isRSRA {
				wantInvalid[typ]++
				invalidTotal++
			} else if strings.Contains(typ, "router advertisement") {
				wantHook++
			}
		}
		if invalidTotal > 0 {
			r.Nontrivial(c.ID)
		}
		r.Count("invalid_messages_delivered", invalidTotal)
		// service must have survived until the stop request
		f := advAnalyze(c, res.ev)
		if f.returnIx >= 0 && int64(f.returnIx) < f.cancelIx {
			r.Violation(c.ID, "service-ended", fmt.Sprintf("the advertiser returned (%v) before it was asked to stop, after invalid messages only", res.runErr), det())
			return
		}
		if !res.returned {
			r.Violation(c.ID, "no-return", "Run had not returned 200 virtual seconds after cancel (listener stuck?)", det())
			return
		}
		for _, e := range res.ev {
			if e.Kind == "dial" && e.ID > 0 {
				r.Violation(c.ID, "service-restarted", "invalid messages caused a re-initialisation", det())
				return
			}
		}
		for typ, n := range wantInvalid {
			key := "interface=veth0,message=" + typ
			if got := res.metric("corerad_messages_received_invalid_total", key); int(got) != n {
				r.Violation(c.ID, "invalid-counter", fmt.Sprintf("invalid counter {%s} = %v, %d invalid messages of that type were delivered", key, got, n), det())
				return
			}
		}
		for _, tn := range typeName {
			if wantInvalid[tn] == 0 {
				if got := res.metric("corerad_messages_received_invalid_total", "interface=veth0,message="+tn); got != 0 {
					r.Violation(c.ID, "invalid-counter", fmt.Sprintf("invalid counter for %q = %v although none was delivered", tn, got), det())
					return
				}
			}
		}
		if int(res.hookCalls.Load()) != wantHook {
			r.Violation(c.ID, "consistency-check-on-invalid", fmt.Sprintf("inconsistency hook fired %d times, %d valid inconsistent RAs were delivered", res.hookCalls.Load(), wantHook), det())
			return
		}
		// the answers: exactly the valid solicitations (this also shows that no
		// invalid message triggered an RA and that later valid ones are served)
		advC07(r, c, res)
	}

	if r.Part == "det" {
		// exhaustive hop-limit sweep × message type
		// … × source kind (link-local, the unspecified address, global)
		for _, typ := range types {
			for hop := 0; hop <= 255; hop++ {
				for _, sk := range []string{"ll", "unspec", "global"} {
					c := &advCase{ID: fmt.Sprintf("hop/%s/%d/%s", typ, hop, sk), Min: 20 * time.Second, Max: 30 * time.Second, Fwd: true, Terminate: true, Seed: time.Duration(hop*131 + len(typ))}
					h := hop
					if hop == 0 {
						h = -1 // advStep.Hop 0 means 255; use -1 for a real 0
					}
					src := fmt.Sprintf("fe80::bad:%x", hop+1)
					switch sk {
					case "unspec":
						src = "::"
					case "global":
						src = fmt.Sprintf("2001:db8:bad::%x", hop+1)
					}
					c.Steps = []advStep{
						{At: 4 * time.Second, Kind: "msg", Msg: typ, Src: src, Hop: h},
						{At: 5 * time.Second, Kind: "rs", Src: "fe80::900d:1"},
					}
					c.StopAt = 9 * time.Second
					run(c)
				}
			}
		}
		// messages that are invalid because of their type or hop limit arrive while
		// the forwarding state cannot be read: they are dropped without looking at
		// anything, so the fault must go unnoticed and later solicitations be served
		for ti, typ := range types {
			for hi, hop := range []int{255, 64, -1} {
				if (typ == "rs" || typ == "ra") && hop == 255 {
					continue // valid: they do need the state
				}
				for k := 1; k <= 3; k++ {
					c := &advCase{ID: fmt.Sprintf("duringfault/%s/%d/%d", typ, hop, k), Min: 20 * time.Second, Max: 30 * time.Second, Fwd: true, Terminate: true, Seed: time.Duration(ti*7 + hi*3 + k)}
					c.Steps = []advStep{{At: 5 * time.Second, Kind: "fwderr", On: true}}
					for j := 0; j < k; j++ {
						h := hop
						if h == 255 {
							h = 0
						}
						c.Steps = append(c.Steps, advStep{At: 5*time.Second + time.Duration(j+1)*100*vMs, Kind: "msg", Msg: typ, Src: []string{"fe80::bad:1", "::", "2001:db8:bad::1"}[j%3], Hop: h})
					}
					c.Steps = append(c.Steps, advStep{At: 6 * time.Second, Kind: "fwderr", On: false}, advStep{At: 7 * time.Second, Kind: "rs", Src: "fe80::900d:4"})
					c.StopAt = 9 * time.Second
					run(c)
				}
			}
		}
		// a flood: thousands of invalid messages in a row (an off-link sender can
		// deliver hop limits other than 255 at line rate).  Each is dropped, and
		// dropping must not cost anything that accumulates: the reader comes back
		// for the next message with a call stack no deeper than before.
		for v, nflood := range []int{3000, 5000} {
			c := &advCase{ID: fmt.Sprintf("flood/%d", nflood), Min: 20 * time.Second, Max: 30 * time.Second, Fwd: true, Terminate: true, Seed: time.Duration(v + 5)}
			for j := 0; j < nflood; j++ {
				c.Steps = append(c.Steps, advStep{At: 4*time.Second + time.Duration(j)*100*time.Microsecond, Kind: "msg", Msg: types[j%4], Src: []string{"fe80::bad:1", "::", "2001:db8:bad::1"}[j%3], Hop: []int{64, 1, 254, -1}[j%4]})
			}
			c.Steps = append(c.Steps, advStep{At: 6 * time.Second, Kind: "rs", Src: "fe80::900d:5"})
			c.StopAt = 8 * time.Second
			if r.Mine(c.ID) {
				run(c)
				// run() has been through this case; look at the stack depths again
				res := advRun(t, c)
				var depths []int64
				for _, e := range res.ev {
					if e.Kind == "read_wait" && e.Gen == 1 {
						depths = append(depths, e.Val)
					}
				}
				if len(depths) > nflood/2 {
					early, late := depths[10], depths[len(depths)-2]
					r.Max("reader_stack_depth_growth_over_flood", late-early)
					if late-early > 16 {
						r.Violation(c.ID, "reader-stack-grows", fmt.Sprintf("the reader's call stack was %d frames deep after 10 dropped messages and %d after %d: it grows with every invalid message and a flood will kill the daemon", early, late, len(depths)-2), map[string]any{"invalid_messages": nflood})
					}
					r.Count("flood_scenarios", 1)
				}
			}
		}
		// runs of k consecutive invalid messages, k beyond the retry budget
		for k := 1; k <= 12; k++ {
			for v := 0; v < 6; v++ {
				c := &advCase{ID: fmt.Sprintf("run/%d/%d", k, v), Min: 20 * time.Second, Max: 30 * time.Second, Fwd: true, Terminate: true, Seed: time.Duration(k*17 + v)}
				at := 4 * time.Second
				for j := 0; j < k; j++ {
					typ := types[(j+v)%4]
					hop := []int{64, 1, 254, -1, 255}[(j*v+j)%5]
					if v%2 == 0 && (typ == "rs" || typ == "ra") && hop == 255 {
						hop = 64
					}
					if hop == 255 && (typ == "rs") {
						hop = 3
					}
					c.Steps = append(c.Steps, advStep{At: at, Kind: "msg", Msg: typ, Src: fmt.Sprintf("fe80::bad:%x", j+1), Hop: hop})
					if v >= 3 {
						at += time.Duration(j) * 10 * vMs
					}
				}
				c.Steps = append(c.Steps, advStep{At: at + 100*vMs, Kind: "rs", Src: "fe80::900d:2"})
				c.Steps = append(c.Steps, advStep{At: at + 2*time.Second, Kind: "rs", Src: "fe80::900d:3"})
				c.StopAt = at + 4*time.Second
				run(c)
			}
		}
	}
	// An invalid message FIRST, then up to four receive time-outs (one fewer than
	// the budget), then a solicitation: the dropped message costs nothing, the
	// solicitation is answered and the task lives on.
	for k := 1; k <= 4; k++ {
		for ti, typ := range []string{"rs", "ra", "ns"} {
			for _, unicastOnly := range []bool{false, true} {
				c := &advCase{ID: fmt.Sprintf("invfirst/%d/%s/%v", k, typ, unicastOnly), Min: 20 * time.Second, Max: 30 * time.Second, Fwd: true, Terminate: true, UnicastOnly: unicastOnly, Seed: time.Duration(k*7 + ti)}
				at := 6 * time.Second
				c.Steps = append(c.Steps, advStep{At: at - time.Second, Kind: "rs", Src: "fe80::900d:1"})
				c.Steps = append(c.Steps, advStep{At: at, Kind: "msg", Msg: typ, Src: "fe80::bad:1", Hop: []int{64, 1, 254}[ti]})
				for j := 0; j < k; j++ {
					c.Steps = append(c.Steps, advStep{At: at, Kind: "readerr", Err: "timeout"})
				}
				c.Steps = append(c.Steps, advStep{At: at + 2*time.Second, Kind: "rs", Src: "fe80::900d:2"})
				c.StopAt = at + 4*time.Second
				if r.Mine(c.ID) {
					r.Count("invalid_first_then_timeouts_histories", 1)
				}
				run(c)
			}
		}
	}
	// random sequences mixing valid, invalid and read time-outs
	rr := r.Rand("c09", r.Part)
	n := r.Pick(300, 200000)
	if r.Part != "det" {
		n = r.Pick(100, 4000)
	}
	for i := 0; i < n; i++ {
		c := &advCase{ID: fmt.Sprintf("rand/%d", i), Fwd: true, Terminate: true, Seed: time.Duration(rr.Int63n(1e9))}
		c.MACPerGen = i%3 == 1 // the hardware address differs from one dial to the next
		c.Min, c.Max = vRegime(rr)
		at := time.Duration(rr.Int63n(int64(5 * time.Second)))
		timeouts := 0
		for k, m := 0, 5+rr.Intn(40); k < m; k++ {
			if rr.Intn(3) != 0 {
				at += time.Duration(rr.Int63n(int64(300 * vMs)))
			}
			switch x := rr.Intn(10); {
			case x < 5:
				// dropped inside the receive loop: does not reset the time-out budget
				src := fmt.Sprintf("fe80::bad:%x", k+1)
				if rr.Intn(4) == 0 {
					src = "::"
				}
				c.Steps = append(c.Steps, advStep{At: at, Kind: "msg", Msg: types[rr.Intn(4)], Src: src, Hop: []int{-1, 1, 64, 128, 254}[rr.Intn(5)]})
			case x < 6:
				c.Steps = append(c.Steps, advStep{At: at, Kind: "msg", Msg: []string{"ns", "na"}[rr.Intn(2)], Src: fmt.Sprintf("fe80::bad:%x", k+1)})
				timeouts = 0
			case x < 7 && timeouts < 3:
				c.Steps = append(c.Steps, advStep{At: at, Kind: "readerr", Err: "timeout"})
				timeouts++
				at += 200 * vMs
			case x < 8:
				c.Steps = append(c.Steps, advStep{At: at, Kind: "msg", Msg: "ra", Src: "fe80::7:1"})
				timeouts = 0
			default:
				c.Steps = append(c.Steps, advStep{At: at, Kind: "rs", Src: vSrc(rr.Intn(4), k)})
				timeouts = 0
			}
			if c.Min != 0 && at > 35*time.Second {
				break
			}
		}
		c.Steps = append(c.Steps, advStep{At: at + 600*vMs, Kind: "rs", Src: "fe80::900d:9"})
		c.StopAt = at + 2*time.Second
		run(c)
	}
}

// TestVerifC10 — failures tear the running task down, recover per policy and
// never leave it half-alive (running-task part; the dial policy part lives in
// internal/system).
func TestVerifC10(t *testing.T) {
	r := vlib.Start("C10", vPart("task"))
	defer r.Finish()
	rr := r.Rand("c10", r.Part)

	type fault struct {
		kind string // read:<err> timeouts:<k> write:<err> link watchclose
		at   time.Duration
	}
	run := func(id string, fl fault, unicastOnly bool, lat time.Duration, seed int64) {
		if !r.Mine(id) {
			return
		}
		c := &advCase{ID: id, Min: 20 * time.Second, Max: 30 * time.Second, Fwd: true, Terminate: true, UnicastOnly: unicastOnly, Seed: time.Duration(seed), FwdLat: lat, WriteLat: lat}
		c.Monitor = strings.HasPrefix(id, "monfault/")
		c.MACPerGen = vlib.Hash64(id)%3 == 1 // the hardware address differs from one dial to the next
		// a solicitation that is answered before the fault
		c.Steps = append(c.Steps, advStep{At: fl.at - 2*time.Second, Kind: "rs", Src: "fe80::a:1"})
		expect := "continue" // continue | redial | error
		parts := strings.SplitN(fl.kind, ":", 2)
		nTimeouts := 0
		switch parts[0] {
		case "read":
			c.Steps = append(c.Steps, advStep{At: fl.at, Kind: "readerr", Err: parts[1]})
			expect = map[string]string{"syscall": "redial", "perm": "error", "other": "error", "eintr": "redial", "emfile": "redial", "op-netdown": "redial"}[parts[1]]
		case "timeouts", "timeoutsinv", "timeoutssys":
			fmt.Sscan(parts[1], &nTimeouts)
			toKind := "timeout"
			if parts[0] == "timeoutssys" {
				// the same policy whatever shape the time-out has: here the system call's
				// own (EAGAIN under a *net.OpError), which is ALSO a system call error
				toKind = "timeout-sys"
			}
			for j := 0; j < nTimeouts; j++ {
				if parts[0] == "timeoutsinv" {
					// invalid messages between the time-outs are dropped inside the
					// receive loop: they must neither reset nor stretch the back-off
					for q := 0; q < 1+(j*7+nTimeouts)%40; q++ {
						c.Steps = append(c.Steps, advStep{At: fl.at, Kind: "msg", Msg: []string{"rs", "ra", "ns"}[q%3], Src: fmt.Sprintf("fe80::bad:%x", q+1), Hop: 64})
					}
				}
				c.Steps = append(c.Steps, advStep{At: fl.at, Kind: "readerr", Err: toKind})
			}
			if nTimeouts >= 5 {
				expect = "error"
			}
		case "spreadtimeouts":
			// time-outs that are each followed by a message that is received: every
			// receive sees one time-out only, so however many there are over the life
			// of the task, none of them is an error
			var n int
			fmt.Sscan(parts[1], &n)
			for j := 0; j < n; j++ {
				at := fl.at + time.Duration(j)*300*vMs
				c.Steps = append(c.Steps, advStep{At: at, Kind: "readerr", Err: "timeout"}, advStep{At: at + 100*vMs, Kind: "rs", Src: fmt.Sprintf("fe80::d:%x", j+1)})
			}
		case "writemc":
			// the failing transmission is a scheduled MULTICAST RA: the answer to a
			// solicitation from :: at fl.at (the same rules as for a unicast answer)
			c.UnicastOnly = false
			c.WriteErrKind, c.WriteErrAfter, c.WriteErrMulticast = parts[1], fl.at, true
			c.Steps = append(c.Steps, advStep{At: fl.at, Kind: "rs", Src: "::"})
			expect = map[string]string{"nobufs": "redial", "syscall": "redial", "perm": "error", "other": "error", "op-nobufs": "redial", "op-acces": "error"}[parts[1]]
		case "writeinit", "writeinit2":
			// the failing transmission is the initial RA of a connection — the first
			// one, or the one dialled after a link event at fl.at — and the cause is not
			// recoverable (permission, not a system call error), for good: the task ends
			// with that error; it is not dialled again, let alone without bound
			c.UnicastOnly = false
			c.WriteErrKind, c.WriteErrInitGen = parts[1], 1
			if parts[0] == "writeinit2" {
				c.WriteErrInitGen = 2
				c.Steps = append(c.Steps, advStep{At: fl.at, Kind: "link"})
			}
			expect = "initerror"
		case "write", "writepending", "writeall":
			c.WriteErrKind, c.WriteErrAfter = parts[1], fl.at
			c.WriteErrAll = parts[0] == "writeall"
			// the failing write is the answer to a solicitation at fl.at
			c.Steps = append(c.Steps, advStep{At: fl.at, Kind: "rs", Src: "fe80::a:2"})
			if parts[0] != "write" {
				// other transmissions are still pending in the scheduler when the
				// first one fails: a second solicited answer and a multicast RA held
				// back by the 3 s spacing
				c.Steps = append(c.Steps, advStep{At: fl.at - 100*vMs, Kind: "rs", Src: "::"}, advStep{At: fl.at, Kind: "rs", Src: "fe80::a:4"},
					advStep{At: fl.at + vMs, Kind: "rs", Src: "fe80::a:5"})
				c.Steps = append(c.Steps, advStep{At: fl.at - 3500*vMs, Kind: "rs", Src: "::"})
			}
			expect = map[string]string{"nobufs": "redial", "syscall": "redial", "perm": "error", "other": "error", "op-nobufs": "redial", "op-acces": "error"}[parts[1]]
		case "link":
			c.Steps = append(c.Steps, advStep{At: fl.at, Kind: "link"})
			expect = "redial"
		case "spacing":
			// the fault arrives while a multicast RA is being held back for the
			// minimum spacing behind a late transmission: the periodic RA of the 16 s
			// tick is on the wire 5 s late, a solicitation from :: arrives meanwhile,
			// its answer waits 3 s from the late transmission, and the link event or
			// receive error falls into that wait
			c.UnicastOnly = false
			c.StallMC, c.StallFor = 3, 5*time.Second
			fl.at = 16*time.Second + c.StallFor + time.Duration(1+(seed%2500))*vMs
			c.Steps = []advStep{{At: 10 * time.Second, Kind: "rs", Src: "fe80::a:1"}, {At: 17 * time.Second, Kind: "rs", Src: "::"}}
			if parts[1] == "link" {
				c.Steps = append(c.Steps, advStep{At: fl.at, Kind: "link"})
			} else {
				c.Steps = append(c.Steps, advStep{At: fl.at, Kind: "readerr", Err: "syscall"})
			}
			expect = "redial"
		case "stalledpeer":
			// a transmit failure while another transmission of the same connection is
			// stalled in the socket, and a burst of solicitations larger than the
			// request queue arrives before the stalled one completes: the task must
			// still be torn down and re-established once it does
			c.UnicastOnly = false
			c.StallMC, c.StallFor = 3, 8*time.Second
			fl.at = 17 * time.Second
			c.WriteErrKind, c.WriteErrAfter, c.WriteErrUnicast = "nobufs", fl.at, true
			c.Steps = []advStep{{At: 10 * time.Second, Kind: "rs", Src: "fe80::a:1"}, {At: fl.at, Kind: "rs", Src: "fe80::a:2"}}
			for q := 0; q < 17+int(seed%20); q++ {
				c.Steps = append(c.Steps, advStep{At: fl.at + time.Second + time.Duration(q)*vMs, Kind: "rs", Src: fmt.Sprintf("fe80::b:%x", q+1)})
			}
			expect = "redial"
		case "linkondial":
			// the link changes right after the connection was established, before
			// the task's watcher exists: the event is queued and must still tear the
			// task down as soon as it runs
			c.LinkOnDial = 1
			expect = "redial"
		case "watchclose":
			c.Steps = append(c.Steps, advStep{At: fl.at, Kind: "watchclose"})
		}
		// service after the fault (on the then-current connection)
		c.Steps = append(c.Steps, advStep{At: fl.at + 3*time.Second, Kind: "rs", Src: "fe80::a:3"})
		c.StopAt = fl.at + 6*time.Second
		if c.StallMC > 0 {
			// tearing the task down waits for the stalled transmission to complete
			c.StopAt = 16*time.Second + c.StallFor + 8*time.Second
		}
		sortSteps(c.Steps)
		r.Begin(id)
		res := advRun(t, c)
		if !vRunCommon(r, c, res) {
			return
		}
		if !c.Monitor {
			// a re-established task advertises what the configuration calls for on the
			// interface as it is now (its hardware address may have changed meanwhile)
			if _, exp, err := vParseOne(c.doc()); err == nil && !advContent(r, c, res, exp) {
				return
			}
		}
		r.Nontrivial(id)
		r.Count("fault_"+parts[0], 1)
		ev := res.ev
		det := func() map[string]any { return advDetail(c, ev) }
		f := advAnalyze(c, ev)
		// locate the fault instant in the trace
		faultT := vNever
		for _, e := range ev {
			if (e.Kind == "read_error" && !vIsTimeout(e.Err)) || e.Kind == "link_event" || (e.Kind == "write_end" && e.Err != "") {
				faultT = e.T
				break
			}
		}
		if strings.HasPrefix(parts[0], "timeouts") && nTimeouts >= 5 {
			// the fifth time-out is returned after back-offs 0+50+100+150 ms, the
			// error after one more back-off of 200 ms
			for _, e := range ev {
				if e.Kind == "read_error" && vIsTimeout(e.Err) {
					faultT = e.T + 500*vMs
					break
				}
			}
		}
		var redialT, returnT time.Duration = vNever, vNever
		var retErr string
		for _, e := range ev {
			if e.Kind == "dial" && e.ID >= 1 && e.T < redialT {
				redialT = e.T
			}
			if e.Kind == "run_return" {
				returnT, retErr = e.T, e.Err
			}
		}
		budget := 4 * lat
		if parts[0] == "stalledpeer" {
			budget += 16*time.Second + c.StallFor - fl.at // until the stalled transmission has completed
		}
		switch expect {
		case "initerror":
			failIx, dialsAfter := -1, 0
			for i, e := range ev {
				if failIx < 0 && e.Kind == "write_end" && e.Err != "" {
					failIx, faultT = i, e.T
				}
				if failIx >= 0 && e.Kind == "dial" {
					dialsAfter++
				}
			}
			if failIx < 0 {
				r.Inconclusive(id, "the initial RA that was to fail was never transmitted")
				return
			}
			if dialsAfter > 0 {
				r.Violation(id, "redial-on-unrecoverable", fmt.Sprintf("the initial RA failed with the unrecoverable %q at %v and the interface was dialled %d more time(s)", parts[1], faultT, dialsAfter), det())
				return
			}
			if returnT == vNever || returnT >= time.Duration(f.cancelT) {
				r.Violation(id, "half-alive", fmt.Sprintf("the initial RA failed with the unrecoverable %q at %v and the task had not ended when it was cancelled at %v", parts[1], faultT, time.Duration(f.cancelT)), det())
				return
			}
			if retErr == "" {
				r.Violation(id, "error-swallowed", fmt.Sprintf("the task ended after its initial RA failed (%q) without reporting an error", parts[1]), det())
				return
			}
			r.Count("initial_ra_failures_ending_the_task", 1)
		case "redial":
			if redialT == vNever {
				cls := "half-alive"
				if returnT < time.Duration(f.cancelT) {
					cls = "gave-up-on-recoverable"
				}
				r.Violation(id, cls, fmt.Sprintf("after the recoverable fault %q at %v the task was not re-established (return at %v err=%q)", fl.kind, faultT, returnT, retErr), det())
				return
			}
			if vTiming && redialT-faultT > budget {
				r.Violation(id, "slow-teardown", fmt.Sprintf("re-dial %v after the fault (budget %v)", redialT-faultT, budget), det())
				return
			}
			if retErr != "" || !res.returned {
				r.Violation(id, "bad-final-return", fmt.Sprintf("after recovery and cancel Run returned=%v err=%q", res.returned, retErr), det())
				return
			}
		case "error":
			if returnT == vNever || returnT >= time.Duration(f.cancelT) {
				r.Violation(id, "half-alive", fmt.Sprintf("after the unrecoverable fault %q at %v the task neither ended nor re-dialled before it was cancelled at %v", fl.kind, faultT, time.Duration(f.cancelT)), det())
				return
			}
			if retErr == "" {
				r.Violation(id, "error-swallowed", fmt.Sprintf("the task ended after %q without reporting an error", fl.kind), det())
				return
			}
			if redialT != vNever {
				r.Violation(id, "redial-on-unrecoverable", fmt.Sprintf("the task re-dialled after the unrecoverable fault %q", fl.kind), det())
				return
			}
			if vTiming && returnT-faultT > budget {
				r.Violation(id, "slow-teardown", fmt.Sprintf("return %v after the fault (budget %v)", returnT-faultT, budget), det())
				return
			}
		case "continue":
			if redialT != vNever || returnT < time.Duration(f.cancelT) {
				r.Violation(id, "needless-teardown", fmt.Sprintf("%q must not end or restart the task (redial=%v return=%v err=%q)", fl.kind, redialT, returnT, retErr), det())
				return
			}
			if !res.returned || retErr != "" {
				r.Violation(id, "bad-final-return", fmt.Sprintf("Run returned=%v err=%q on cancel", res.returned, retErr), det())
				return
			}
		}
		// no activity on a generation after its successor was dialled / Run returned
		cutIx := -1
		for i, e := range ev {
			if (e.Kind == "dial" && e.ID >= 1) || e.Kind == "run_return" {
				cutIx = i
				break
			}
		}
		for i, e := range ev {
			if cutIx >= 0 && i > cutIx && e.Gen == 1 && (e.Kind == "read_wait" || e.Kind == "write_begin") && expect != "continue" {
				r.Violation(id, "old-generation-active", fmt.Sprintf("%s on generation 1 at %v, after the task was torn down at %v", e.Kind, e.T, ev[cutIx].T), det())
				return
			}
		}
		// a transmit failure stops the generation: no further transmission is
		// attempted on it (transmissions already inside the injected latency excepted)
		if strings.HasPrefix(parts[0], "write") && lat == 0 {
			firstFail := -1
			for i, e := range ev {
				if e.Kind == "write_end" && e.Err != "" && e.Gen == 1 {
					firstFail = i
					break
				}
			}
			for i, e := range ev {
				if firstFail >= 0 && i > firstFail && e.Gen == 1 && e.Kind == "write_begin" && e.T > ev[firstFail].T {
					r.Violation(id, "transmit-after-failure", fmt.Sprintf("generation 1 transmitted again at %v after its transmit failure at %v", e.T, ev[firstFail].T), det())
					return
				}
			}
		}
		// back-off between retried time-outs: 0, 50, 100, 150, 200 ms
		if strings.HasPrefix(parts[0], "timeouts") && vTiming {
			var ts []time.Duration
			for _, e := range ev {
				if e.Kind == "read_error" && vIsTimeout(e.Err) {
					ts = append(ts, e.T)
				}
			}
			for j := 1; j < len(ts); j++ {
				want := time.Duration(j-1) * 50 * vMs
				if ts[j]-ts[j-1] != want {
					r.Violation(id, "timeout-backoff", fmt.Sprintf("gap between receive time-outs %d and %d is %v, want %v", j, j+1, ts[j]-ts[j-1], want), det())
					return
				}
			}
		}
		// everything the C07 oracle says about answers still applies (a monitor
		// answers nothing, but must keep reading)
		if c.Monitor {
			for _, e := range ev {
				if e.Kind == "write_begin" {
					r.Violation(id, "monitor-transmits", "a monitoring interface transmitted a packet", det())
					return
				}
			}
			advTaken(r, c, res)
		} else {
			advC07(r, c, res)
		}
		if r.WantSample() && expect == "redial" {
			r.Sample(map[string]any{"id": id, "fault": fl.kind, "expected": expect, "trace": vfake.Strings(vOnly(ev, "read_error", "link_event", "write_end", "dial", "run_return", "cancel", "write_begin"), 24)})
		}
	}

	kinds := []string{"read:syscall", "read:perm", "read:other", "read:eintr", "read:emfile", "read:op-netdown", "timeouts:1", "timeouts:2", "timeouts:3", "timeouts:4", "timeouts:5", "timeouts:6",
		"timeoutsinv:1", "timeoutsinv:3", "timeoutsinv:4", "timeoutsinv:5", "spreadtimeouts:5", "spreadtimeouts:6", "spreadtimeouts:12", "timeoutssys:2", "timeoutssys:4", "timeoutssys:5", "timeoutssys:7", "writemc:nobufs", "writemc:perm", "writemc:other", "writemc:op-nobufs", "writeinit:perm", "writeinit:other", "writeinit:op-acces", "writeinit2:perm", "writeinit2:other", "writeinit2:op-acces",
		"linkondial", "write:nobufs", "write:perm", "write:other", "write:op-nobufs", "write:op-acces", "writepending:nobufs", "writepending:other", "writeall:nobufs", "writeall:perm", "link", "watchclose", "spacing:link", "spacing:read", "stalledpeer:x"}
	// the same read-side faults against a Monitor task
	mreps := r.Pick(4, 150)
	for _, k := range []string{"read:syscall", "read:perm", "read:other", "read:eintr", "read:emfile", "timeouts:1", "timeouts:4", "timeouts:5", "timeouts:6", "spreadtimeouts:5", "spreadtimeouts:9", "timeoutssys:4", "timeoutssys:5", "link", "linkondial", "watchclose"} {
		for rep := 0; rep < mreps; rep++ {
			at := 4*time.Second + time.Duration(rr.Int63n(int64(8*time.Second)))
			run(fmt.Sprintf("monfault/%s/%d", k, rep), fault{k, at}, false, 0, rr.Int63n(1e9))
		}
	}
	i := 0
	reps := r.Pick(3, 150)
	for _, k := range kinds {
		for _, uo := range []bool{false, true} {
			for _, lat := range []time.Duration{0, 2 * vMs} {
				for rep := 0; rep < reps; rep++ {
					at := 4*time.Second + time.Duration(rr.Int63n(int64(8*time.Second)))
					run(fmt.Sprintf("fault/%s/uo=%v/lat=%v/%d", k, uo, lat, rep), fault{k, at}, uo, lat, rr.Int63n(1e9))
					i++
				}
			}
		}
	}
}
