//go:build verif

package corerad

import (
	"encoding/json"
	"fmt"
	"io"
	"log"
	"net/http"
	"net/http/httptest"
	"sort"
	"strings"
	"time"

	"github.com/mdlayher/corerad/internal/config"
	"github.com/mdlayher/corerad/internal/crhttp"
	"github.com/mdlayher/corerad/internal/system"
	"github.com/mdlayher/metricslite"
	"github.com/prometheus/client_golang/prometheus"
	"github.com/prometheus/client_golang/prometheus/promhttp"
	"verif.local/model"
)

// vProm wires metrics and the debug API exactly as cmd/corerad/main.go does.
type vProm struct {
	reg *prometheus.Registry
	mm  *Metrics
	h   *crhttp.Handler
}

func vNewProm(state system.State, cfg config.Config, ll *log.Logger) *vProm {
	p := &vProm{reg: prometheus.NewPedanticRegistry()}
	p.mm = NewMetrics(metricslite.NewPrometheus(p.reg), "verif", time.Time{}, state, cfg.Interfaces)
	if ll == nil {
		ll = log.New(io.Discard, "", 0)
	}
	p.h = crhttp.NewHandler(ll, state, cfg, promhttp.HandlerFor(p.reg, promhttp.HandlerOpts{}))
	return p
}

// A vSample is one gathered sample: metric name + sorted label pairs.
type vSample struct {
	Key   string
	Value float64
}

// gather scrapes the registry; err is the scrape error (if any).
func (p *vProm) gather() (map[string]float64, error) {
	mfs, err := p.reg.Gather()
	out := map[string]float64{}
	for _, mf := range mfs {
		for _, m := range mf.GetMetric() {
			var ls []string
			for _, l := range m.GetLabel() {
				ls = append(ls, l.GetName()+"="+l.GetValue())
			}
			sort.Strings(ls)
			v := 0.0
			switch {
			case m.Gauge != nil:
				v = m.GetGauge().GetValue()
			case m.Counter != nil:
				v = m.GetCounter().GetValue()
			case m.Untyped != nil:
				v = m.GetUntyped().GetValue()
			}
			out[mf.GetName()+"{"+strings.Join(ls, ",")+"}"] = v
		}
	}
	return out, err
}

// get performs a request against the debug handler.
func (p *vProm) get(path string) (int, string) {
	rec := httptest.NewRecorder()
	p.h.ServeHTTP(rec, httptest.NewRequest(http.MethodGet, path, nil))
	return rec.Code, rec.Body.String()
}

// vExpectedSamples lists the const samples that must mirror an RA.
func vExpectedSamples(iface string, ra model.RA) map[string]float64 {
	out := map[string]float64{}
	sec := func(ns int64) float64 { return time.Duration(ns).Seconds() }
	b := func(x bool) float64 {
		if x {
			return 1
		}
		return 0
	}
	for _, o := range ra.Options {
		switch o.Kind {
		case "prefix":
			l := "{interface=" + iface + ",prefix=" + o.Prefix + "}"
			out["corerad_advertiser_prefix_autonomous"+l] = b(o.Autonomous)
			out["corerad_advertiser_prefix_on_link"+l] = b(o.OnLink)
			out["corerad_advertiser_prefix_valid_seconds"+l] = sec(o.Valid)
			out["corerad_advertiser_prefix_preferred_seconds"+l] = sec(o.Preferred)
		case "route":
			out["corerad_advertiser_route_lifetime_seconds{interface="+iface+",route="+o.Prefix+"}"] = sec(o.Lifetime)
		case "rdnss":
			out["corerad_advertiser_rdnss_lifetime_seconds{interface="+iface+",servers="+strings.Join(o.Servers, ", ")+"}"] = sec(o.Lifetime)
		case "dnssl":
			out["corerad_advertiser_dnssl_lifetime_seconds{domains="+strings.Join(o.Names, ", ")+",interface="+iface+"}"] = sec(o.Lifetime)
		}
	}
	return out
}

var vConstPrefixes = []string{"corerad_advertiser_prefix_", "corerad_advertiser_route_", "corerad_advertiser_rdnss_", "corerad_advertiser_dnssl_", "corerad_advertiser_misconfiguration", "corerad_interface_"}

// vConstOnly filters the gathered samples down to the const (RA-mirroring) families.
func vConstOnly(all map[string]float64, iface string) map[string]float64 {
	out := map[string]float64{}
	for k, v := range all {
		for _, p := range vConstPrefixes {
			if strings.HasPrefix(k, p) && strings.Contains(k, "interface="+iface+",") || strings.HasPrefix(k, p) && strings.Contains(k, "interface="+iface+"}") {
				out[k] = v
			}
		}
	}
	return out
}

func vDiffSamples(want, got map[string]float64) string {
	var diffs []string
	for k, v := range want {
		g, ok := got[k]
		if !ok {
			diffs = append(diffs, fmt.Sprintf("missing %s (want %v)", k, v))
		} else if g != v {
			diffs = append(diffs, fmt.Sprintf("%s = %v, want %v", k, g, v))
		}
	}
	for k, v := range got {
		if _, ok := want[k]; !ok {
			diffs = append(diffs, fmt.Sprintf("unexpected %s = %v", k, v))
		}
	}
	sort.Strings(diffs)
	if len(diffs) > 6 {
		diffs = diffs[:6]
	}
	return strings.Join(diffs, "; ")
}

// vExpectedAPI renders the RA the way the debug API documents it.
func vExpectedAPI(ra model.RA) map[string]any {
	opts := map[string]any{"mtu": 0.0, "source_link_layer_address": "", "captive_portal": ""}
	var prefixes, routes, rdnss, dnssl []any
	sec := func(ns int64) float64 { return float64(int(time.Duration(ns).Seconds())) }
	for _, o := range ra.Options {
		switch o.Kind {
		case "prefix":
			prefixes = append(prefixes, map[string]any{"prefix": o.Prefix, "on_link": o.OnLink, "autonomous_address_autoconfiguration": o.Autonomous,
				"valid_lifetime_seconds": sec(o.Valid), "preferred_lifetime_seconds": sec(o.Preferred)})
		case "route":
			routes = append(routes, map[string]any{"prefix": o.Prefix, "preference": o.RoutePref, "route_lifetime_seconds": sec(o.Lifetime)})
		case "rdnss":
			var ss []any
			for _, s := range o.Servers {
				ss = append(ss, s)
			}
			rdnss = append(rdnss, map[string]any{"lifetime_seconds": sec(o.Lifetime), "servers": ss})
		case "dnssl":
			var ns []any
			for _, s := range o.Names {
				ns = append(ns, s)
			}
			dnssl = append(dnssl, map[string]any{"lifetime_seconds": sec(o.Lifetime), "domain_names": ns})
		case "mtu":
			opts["mtu"] = float64(o.MTU)
		case "slla":
			opts["source_link_layer_address"] = o.MAC
		case "captive-portal":
			opts["captive_portal"] = o.URI
		}
	}
	opts["prefixes"], opts["routes"], opts["rdnss"], opts["dnssl"] = prefixes, routes, rdnss, dnssl
	return map[string]any{
		"current_hop_limit": float64(ra.HopLimit), "managed_configuration": ra.Managed, "other_configuration": ra.Other,
		"mobile_ipv6_home_agent": false, "router_selection_preference": ra.Preference, "neighbor_discovery_proxy": false,
		"router_lifetime_seconds": sec(ra.RouterLifetime), "reachable_time_milliseconds": float64(time.Duration(ra.Reachable).Milliseconds()),
		"retransmit_timer_milliseconds": float64(time.Duration(ra.Retrans).Milliseconds()), "options": opts,
	}
}

// vJSONDiff compares decoded JSON values; nil and empty lists are equal, and
// keys present only in got are reported unless listed in allowExtra.
func vJSONDiff(path string, want, got any, allowExtra map[string]bool) string {
	isEmpty := func(v any) bool {
		if v == nil {
			return true
		}
		if l, ok := v.([]any); ok && len(l) == 0 {
			return true
		}
		return false
	}
	if isEmpty(want) && isEmpty(got) {
		return ""
	}
	switch w := want.(type) {
	case map[string]any:
		g, ok := got.(map[string]any)
		if !ok {
			return fmt.Sprintf("%s: want object, got %T", path, got)
		}
		for k, wv := range w {
			if d := vJSONDiff(path+"."+k, wv, g[k], allowExtra); d != "" {
				return d
			}
		}
		for k := range g {
			if _, ok := w[k]; !ok && !allowExtra[k] {
				return fmt.Sprintf("%s: unexpected key %q", path, k)
			}
		}
		return ""
	case []any:
		g, ok := got.([]any)
		if !ok || len(g) != len(w) {
			return fmt.Sprintf("%s: want %d elements, got %v", path, len(w), got)
		}
		for i := range w {
			if d := vJSONDiff(fmt.Sprintf("%s[%d]", path, i), w[i], g[i], allowExtra); d != "" {
				return d
			}
		}
		return ""
	}
	if fmt.Sprint(want) != fmt.Sprint(got) {
		return fmt.Sprintf("%s: want %v, got %v", path, want, got)
	}
	return ""
}

// vAPIInterfaces decodes the body of /_/api/interfaces.
func vAPIInterfaces(body string) ([]map[string]any, error) {
	var top map[string]any
	if err := json.Unmarshal([]byte(body), &top); err != nil {
		return nil, err
	}
	l, _ := top["interfaces"].([]any)
	var out []map[string]any
	for _, x := range l {
		m, ok := x.(map[string]any)
		if !ok {
			return nil, fmt.Errorf("interfaces element is %T", x)
		}
		out = append(out, m)
	}
	return out, nil
}
