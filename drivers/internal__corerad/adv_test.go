//go:build verif

package corerad

import (
	"fmt"
	"io/fs"
	"net"
	"os"
	"syscall"

	"github.com/mdlayher/corerad/internal/config"
	"net/netip"
	"sort"
	"strings"
	"sync/atomic"
	"testing"
	"time"

	"github.com/mdlayher/ndp"
	"verif.local/model"
	"verif.local/vfake"
	"verif.local/vlib"
)

// An advStep is one scripted stimulus.
type advStep struct {
	At   time.Duration
	Kind string // rs msg readerr link fwd watchclose
	Src  string // source address for rs/msg
	Hop  int    // 0 = 255
	Msg  string // rs ra ns na (kind msg)
	Err  string // timeout syscall perm other (kind readerr)
	On   bool   // forwarding value (kind fwd)
	SLLA bool
}

// An advCase is a complete advertiser scenario.
type advCase struct {
	ID          string
	Min, Max    time.Duration
	UnicastOnly bool
	Lifetime    string // "" = auto, "0s" = zero
	Fwd         bool
	Steps       []advStep
	StopAt      time.Duration
	Terminate   bool
	WriteLat    time.Duration
	FwdLat      time.Duration
	// WriteErrAt: the n-th scheduled (non-initial) write of generation 1 fails
	// with the given error kind ("" = none).
	WriteErrN    int
	WriteErrKind string
	// WriteErrAfter (when > 0) replaces WriteErrN: the first write of generation
	// 1 that begins at or after this instant fails.
	WriteErrAfter time.Duration
	// WriteErrAll: every write from WriteErrAfter on fails (a persistent fault),
	// not just the first one.
	WriteErrAll bool
	// WriteErrUnicast restricts the injected failures to unicast destinations.
	WriteErrUnicast bool
	// WriteErrMulticast restricts them to the all-nodes destination.
	WriteErrMulticast bool
	// WriteErrInitGen (when > 0): instead, the first write — the initial RA — of
	// every connection from that generation on fails with WriteErrKind.
	WriteErrInitGen int
	Seed            time.Duration
	Tail            time.Duration // observation time after run_return
	// StopHook places the stop request inside an operation: "fwd" = inside the
	// first forwarding read, "write" = inside the first socket write, that begins
	// at or after StopHookAfter; the request is made StopHookDelay later.
	// LinkOnDial: the k-th (1-based) successful dial is followed, before the
	// task's goroutines exist, by a link-state event (0 = none).
	LinkOnDial int
	// Monitor runs a Monitor task instead of an Advertiser (C10 faults).
	Monitor bool
	// ReportK1: report a loss with the K1 signature as the known finding (C07
	// only); other properties' parallel passes merely count it.
	ReportK1 bool
	// StallMC: the k-th (1-based, the initial RA is 1) multicast write of
	// generation 1 blocks for StallFor before the packet is on the wire.
	StallMC  int
	StallFor time.Duration
	// DeadlineLat: the interruption of the reader takes this long to take effect.
	DeadlineLat time.Duration
	// Dynamic: the configuration has deprecated options that count down during
	// the scenario.
	Dynamic bool
	// MACPerGen: the hardware address changes (or vanishes) between dials.
	MACPerGen     bool
	StopHook      string
	StopHookAfter time.Duration
	StopHookDelay time.Duration
}

type advResult struct {
	ev        []vfake.Event
	returned  bool
	runErr    error
	panicMsg  string
	series    map[string]map[string]float64
	hookCalls atomic.Int32
	leak      bool
}

// vSysTimeout: a receive time-out as the system call itself reports it (a socket
// with a receive time-out, EAGAIN): a net.Error whose Timeout() is true AND a
// *os.SyscallError underneath.
var vSysTimeout error = &net.OpError{Op: "read", Net: "ip6:ipv6-icmp", Err: os.NewSyscallError("recvmsg", syscall.EAGAIN)}

// vIsTimeout: the text of a recorded receive error is one of the time-out shapes.
func vIsTimeout(s string) bool { return s == vfake.ErrTimeout.Error() || s == vSysTimeout.Error() }

func vErrOf(kind string) error {
	switch kind {
	case "timeout":
		return vfake.ErrTimeout
	case "timeout-sys":
		return vSysTimeout
	case "syscall":
		return vfake.ErrSyscall
	case "nobufs":
		return vfake.ErrSyscallBuf
	case "perm":
		return vfake.ErrPermission
	case "other":
		return vfake.ErrOther
	case "op-nobufs":
		return &net.OpError{Op: "write", Net: "ip6:ipv6-icmp", Err: os.NewSyscallError("sendmsg", syscall.ENOBUFS)}
	case "op-acces":
		return &net.OpError{Op: "write", Net: "ip6:ipv6-icmp", Err: os.NewSyscallError("sendmsg", syscall.EACCES)}
	case "eintr", "emfile", "op-netdown":
		// as the socket layer reports them: *net.OpError around *os.SyscallError;
		// EINTR and EMFILE are "temporary" for package net without being timeouts
		no := map[string]syscall.Errno{"eintr": syscall.EINTR, "emfile": syscall.EMFILE, "op-netdown": syscall.ENETDOWN}[kind]
		return &net.OpError{Op: "read", Net: "ip6:ipv6-icmp", Err: os.NewSyscallError("recvmsg", no)}
	}
	return nil
}

func vMsgOf(kind string, variant int) ndp.Message {
	switch kind {
	case "rs":
		return vRS(variant%2 == 0)
	case "ra":
		// An RA that is inconsistent with ours in several fields.
		return &ndp.RouterAdvertisement{CurrentHopLimit: 13, ManagedConfiguration: true, RouterLifetime: 100 * time.Second,
			Options: []ndp.Option{&ndp.PrefixInformation{PrefixLength: 64, ValidLifetime: time.Hour, PreferredLifetime: time.Minute, Prefix: netip.MustParseAddr("2001:db8::")}}}
	case "ns":
		return &ndp.NeighborSolicitation{TargetAddress: netip.MustParseAddr("fe80::1")}
	case "na":
		return &ndp.NeighborAdvertisement{TargetAddress: netip.MustParseAddr("fe80::2"), Solicited: true}
	}
	return vRS(false)
}

func (c *advCase) doc() model.Doc {
	d := vBaseDoc(c.Min, c.Max)
	f := &d.Ifaces[0]
	if c.Dynamic {
		// content that changes while the advertiser runs: deprecated options whose
		// deadlines fall inside the scenario (the epoch is 24 h before the bubble's
		// clock starts).  Every RA, the final one included, carries what is left
		// at the moment it is transmitted.
		day := int64(24 * time.Hour)
		f.Prefixes = append(f.Prefixes, model.PrefixSt{Prefix: model.MkCIDR("2001:db8:dead::/64"), Valid: model.D(day + int64(40*time.Second)), Preferred: model.D(day + int64(12*time.Second)), Deprecated: model.B(true)})
		f.Routes = append(f.Routes, model.RouteSt{Prefix: model.MkCIDR("2001:db8:beef::/48"), Lifetime: model.D(day + int64(25*time.Second)), Deprecated: model.B(true)})
	}
	if c.UnicastOnly {
		f.UnicastOnly = model.B(true)
	}
	// header fields away from their defaults, so that an RA built from anything
	// but the interface's configuration (the final one included) shows
	switch vlib.Hash64(c.ID) % 3 {
	case 1:
		f.Preference, f.Managed, f.HopLimit = model.S("high"), model.B(true), model.I(37)
	case 2:
		f.Preference, f.OtherConfig = model.S("low"), model.B(true)
	}
	switch c.Lifetime {
	case "":
	case "0s":
		f.DefaultLifetime = model.D(0)
	default:
		panic("lifetime")
	}
	return d
}

// advRun executes a scenario against the real Advertiser.
func advRun(t *testing.T, c *advCase) *advResult {
	res := &advResult{}
	ifi, exp, err := vParseOne(c.doc())
	if err != nil {
		res.panicMsg = "harness: " + err.Error()
		return res
	}
	if c.Monitor {
		ifi = config.Interface{Name: ifi.Name, Monitor: true}
	}
	res.panicMsg = vBubble(t, func() {
		h := vNewH(ifi, exp, c.Seed)
		h.macPerGen = c.MACPerGen
		h.st.SetForwarding(ifi.Name, c.Fwd)
		h.st.ReadLatency = c.FwdLat
		h.connSetup = func(cn *vfake.Conn) {
			cn.WriteLatency = c.WriteLat
			cn.DeadlineLatency = c.DeadlineLat
			if c.StallMC > 0 && cn.Gen == 1 {
				var k atomic.Int32
				cn.WriteLatencyOf = func(_ int, dst netip.Addr) time.Duration {
					if dst.IsMulticast() && int(k.Add(1)) == c.StallMC {
						h.tr.Add(vfake.Event{Kind: "stall", Val: int64(c.StallFor)})
						return c.StallFor
					}
					return 0
				}
			}
			if c.LinkOnDial != 0 && cn.Gen == c.LinkOnDial {
				h.tr.Add(vfake.Event{Kind: "link_event", Msg: "queued while the connection was being set up"})
				select {
				case h.watchC <- 2:
				default:
				}
			}
			if c.WriteErrKind != "" && c.WriteErrInitGen > 0 {
				if cn.Gen >= c.WriteErrInitGen {
					cn.WriteErr = func(n int, _ netip.Addr) error {
						if n == 0 {
							return vErrOf(c.WriteErrKind)
						}
						return nil
					}
				}
			} else if c.WriteErrKind != "" && cn.Gen == 1 {
				first := 1
				if c.UnicastOnly {
					first = 0
				}
				var fired atomic.Bool
				cn.WriteErr = func(n int, dst netip.Addr) error {
					if c.WriteErrUnicast && dst.IsMulticast() || c.WriteErrMulticast && !dst.IsMulticast() {
						return nil
					}
					if c.WriteErrAfter > 0 {
						if h.tr.Now() >= c.WriteErrAfter && (fired.CompareAndSwap(false, true) || c.WriteErrAll) {
							return vErrOf(c.WriteErrKind)
						}
						return nil
					}
					if n == first+c.WriteErrN {
						return vErrOf(c.WriteErrKind)
					}
					return nil
				}
			}
		}
		var hookFired atomic.Bool
		fire := func() {
			if h.tr.Now() >= c.StopHookAfter && hookFired.CompareAndSwap(false, true) {
				go func() {
					time.Sleep(c.StopHookDelay)
					h.stop(c.Terminate)
				}()
			}
		}
		switch c.StopHook {
		case "fwd":
			h.st.OnFwdBegin = func(int) { fire() }
		case "write":
			inner := h.connSetup
			h.connSetup = func(cn *vfake.Conn) {
				inner(cn)
				cn.OnWrite = func(int, netip.Addr, *ndp.RouterAdvertisement) { fire() }
			}
		}
		if c.Monitor {
			h.startMonitor(false)
		} else {
			h.startAdvertiser()
			h.adv.OnInconsistentRA = func(_, _ *ndp.RouterAdvertisement) {
				res.hookCalls.Add(1)
				h.tr.Add(vfake.Event{Kind: "hook_inconsistent"})
			}
		}
		stopped := false
		for i, s := range c.Steps {
			if !stopped && c.StopAt > 0 && c.StopAt <= s.At {
				h.at(c.StopAt)
				if hookFired.CompareAndSwap(false, true) || c.StopHook == "" {
					h.stop(c.Terminate)
				}
				stopped = true
			}
			h.at(s.At)
			hop := s.Hop
			switch hop {
			case 0:
				hop = 255
			case -1:
				hop = 0
			}
			switch s.Kind {
			case "rs":
				h.deliver(vfake.In{Msg: vRS(s.SLLA && s.Src != "::"), Hop: hop, From: netip.MustParseAddr(s.Src)})
			case "msg":
				m := vMsgOf(s.Msg, i)
				if s.Msg == "rs" && s.Src == "::" {
					m = vRS(false) // RFC 4861 6.1.1: no source link-layer address option from ::
				}
				h.deliver(vfake.In{Msg: m, Hop: hop, From: netip.MustParseAddr(s.Src)})
			case "readerr":
				h.deliver(vfake.In{Err: vErrOf(s.Err)})
			case "link":
				h.tr.Add(vfake.Event{Kind: "link_event"})
				select {
				case h.watchC <- 2:
				default:
				}
			case "watchclose":
				h.tr.Add(vfake.Event{Kind: "watch_close"})
				close(h.watchC)
			case "fwd":
				h.settle()
				h.st.SetForwarding(ifi.Name, s.On)
			case "fwderr": // the forwarding state is unreadable while On
				h.settle()
				if s.On {
					var fe error = fmt.Errorf("open: %w", vfake.ErrSyscall)
					switch s.Err {
					case "notexist": // what reading a sysctl of an interface that is gone returns
						fe = &fs.PathError{Op: "open", Path: "/proc/sys/net/ipv6/conf/" + ifi.Name + "/forwarding", Err: syscall.ENOENT}
					case "perm":
						fe = &fs.PathError{Op: "open", Path: "/proc/sys/net/ipv6/conf/" + ifi.Name + "/forwarding", Err: syscall.EACCES}
					case "other":
						fe = fmt.Errorf("open: %w", vfake.ErrOther)
					}
					h.st.SetFwdErr(func(int, string) error { return fe })
				} else {
					h.st.SetFwdErr(nil)
				}
			}
		}
		if !stopped {
			h.at(c.StopAt)
			if hookFired.CompareAndSwap(false, true) || c.StopHook == "" {
				h.stop(c.Terminate)
			}
		}
		res.returned = h.waitRun(vWatchdog)
		res.runErr = h.runErr
		tail := c.Tail
		if tail == 0 {
			tail = 10 * time.Second
		}
		time.Sleep(tail)
		h.settle()
		res.ev = h.tr.Events()
		all, _ := h.mm.Series()
		res.series = map[string]map[string]float64{}
		for name, s := range all {
			res.series[name] = s.Samples
		}
	})
	if strings.Contains(res.panicMsg, "blocked goroutines remain") {
		res.leak = true
		res.panicMsg = ""
	}
	return res
}

func (res *advResult) metric(name, key string) float64 {
	if s, ok := res.series[name]; ok {
		return s[key]
	}
	return 0
}

// advFacts are the common derived facts of a trace.
type advFacts struct {
	cancelT, cancelIx int64
	returnIx          int
	genStart          map[int]time.Duration
	genEnd            map[int]time.Duration // instant the generation stopped being served
	writes            []vfake.Event
	writeIx           []int
	initialIx         map[int]int // gen -> index of initial RA write_begin
	finalIx           []int       // indices of zero-lifetime multicast writes after cancel
	endAll            time.Duration
}

const vNever = time.Duration(1 << 62)

func advAnalyze(c *advCase, ev []vfake.Event) *advFacts {
	f := &advFacts{cancelT: -1, cancelIx: -1, returnIx: -1, genStart: map[int]time.Duration{}, genEnd: map[int]time.Duration{}, initialIx: map[int]int{}, endAll: vNever}
	for i, e := range ev {
		switch e.Kind {
		case "cancel":
			if f.cancelT < 0 {
				f.cancelT, f.cancelIx = int64(e.T), int64(i)
				if e.T < f.endAll {
					f.endAll = e.T
				}
			}
		case "run_return":
			f.returnIx = i
			if e.T < f.endAll {
				f.endAll = e.T
			}
		case "dial":
			if e.Err == "" && e.Gen > 0 {
				f.genStart[e.Gen] = e.T
				if e.Gen > 1 {
					if _, ok := f.genEnd[e.Gen-1]; !ok {
						f.genEnd[e.Gen-1] = e.T
					}
				}
			}
		case "link_event", "read_error", "watch_close":
			// The current generation may end here (an error ends it; a watcher
			// close does not, but then nothing stops being answered either).
			if e.Kind == "watch_close" {
				break
			}
			g := e.Gen
			if g == 0 {
				for gg := range f.genStart {
					if gg > g {
						g = gg
					}
				}
			}
			if _, ok := f.genEnd[g]; !ok && (e.Kind == "link_event" || !vIsTimeout(e.Err)) {
				f.genEnd[g] = e.T
			}
		case "write_end":
			if e.Err != "" {
				if _, ok := f.genEnd[e.Gen]; !ok {
					f.genEnd[e.Gen] = e.T
				}
			}
		case "write_begin":
			f.writes = append(f.writes, e)
			f.writeIx = append(f.writeIx, i)
			if _, ok := f.initialIx[e.Gen]; !ok && !c.UnicastOnly {
				f.initialIx[e.Gen] = i
			}
			if f.cancelIx >= 0 && e.Dst == vAllNodes.String() && e.Life == 0 && !(c.Lifetime == "0s" || !advFwdAtStop(c)) {
				f.finalIx = append(f.finalIx, i)
			}
		}
	}
	// When every RA has lifetime 0 at the stop (configured so, or the interface
	// is not forwarding) the final RA of a terminating advertiser is the last
	// multicast transmission begun after the request.
	if f.cancelIx >= 0 && c.Terminate && !c.UnicastOnly && (c.Lifetime == "0s" || !advFwdAtStop(c)) {
		for k := len(f.writes) - 1; k >= 0; k-- {
			if int64(f.writeIx[k]) < f.cancelIx {
				break
			}
			if f.writes[k].Dst == vAllNodes.String() && f.writes[k].Life == 0 {
				f.finalIx = append(f.finalIx, f.writeIx[k])
				break
			}
		}
	}
	return f
}

func (f *advFacts) end(gen int) time.Duration {
	e := f.endAll
	if ge, ok := f.genEnd[gen]; ok && ge < e {
		e = ge
	}
	return e
}

func advDetail(c *advCase, ev []vfake.Event) map[string]any {
	return map[string]any{"case": c, "trace": vfake.Strings(vOnly(ev, "enqueue", "write_begin", "write_end", "read_deliver", "read_error", "read_timeout", "cancel", "dial", "link_event", "run_return", "flip_forwarding", "terminate_read", "hook_inconsistent", "watch_close"), 120)}
}

// advContent checks that every transmitted RA is what the configuration calls
// for given the forwarding state at the moment it was generated.
func advContent(r *vlib.Run, c *advCase, res *advResult, exp *model.ExpIface) bool {
	fwd := c.Fwd
	lastFwdRead := int64(-1)
	f := advAnalyze(c, res.ev)
	final := map[int]bool{}
	for _, ix := range f.finalIx {
		final[ix] = true
	}
	sys := &model.Sys{MAC: vMAC}
	for i, e := range res.ev {
		switch e.Kind {
		case "fwd_read":
			lastFwdRead = e.Val
		case "flip_forwarding":
			fwd = e.Val != 0
		case "write_begin":
			if e.RA == nil {
				r.Violation(c.ID, "non-ra-written", "a non-RA message was transmitted: "+e.Msg, advDetail(c, res.ev))
				return false
			}
			fw := fwd
			if lastFwdRead >= 0 {
				fw = lastFwdRead != 0
			}
			ex := *exp
			isFinal := f.cancelIx >= 0 && int64(i) > f.cancelIx && e.Dst == vAllNodes.String() && c.Terminate && e.Life == 0
			if isFinal {
				ex.DefaultLifetime = 0
			}
			// the bubble's clock starts at 2000-01-01 and the trace after the
			// scenario's seed offset: the instant this RA was handed to the socket
			at := time.Date(2000, 1, 1, 0, 0, 0, 0, time.UTC).Add(c.Seed).Add(e.T)
			if c.MACPerGen {
				sys = &model.Sys{}
				if m := vMACOf(e.Gen); m != nil {
					sys.MAC = m
				}
			}
			want, _, _ := model.ExpectedRA(&ex, sys, fw, vEpoch, at)
			if d := model.DiffRA(want, *e.RA); d != "" {
				r.Violation(c.ID, "ra-content", fmt.Sprintf("RA transmitted at %v differs from the configuration (forwarding=%v): %s", e.T, fw, d), advDetail(c, res.ev))
				return false
			}
		}
	}
	return true
}

// advTaken is the bounded-progress oracle of the listener: every scripted
// input queued on a connection is taken within one virtual second, unless the
// generation stopped being served before that.
func advTaken(r *vlib.Run, c *advCase, res *advResult) bool {
	f := advAnalyze(c, res.ev)
	taken := map[string]bool{}
	listening := map[int]time.Duration{} // generation -> instant its listener first read
	for _, e := range res.ev {
		switch e.Kind {
		case "read_deliver", "read_error":
			taken[fmt.Sprintf("%d/%d", e.Gen, e.ID)] = true
		case "read_wait":
			if _, ok := listening[e.Gen]; !ok {
				listening[e.Gen] = e.T
			}
		}
	}
	for _, e := range res.ev {
		if e.Kind != "enqueue" || taken[fmt.Sprintf("%d/%d", e.Gen, e.ID)] {
			continue
		}
		// the listener of a generation only exists once its initial RA has been
		// sent (which takes the injected latencies)
		from := e.T
		if st, ok := listening[e.Gen]; !ok {
			continue
		} else if st > from {
			from = st
		}
		if from+time.Second > f.end(e.Gen) {
			continue
		}
		r.Violation(c.ID, "listener-stopped-reading", fmt.Sprintf("input %d queued at %v on generation %d was never read although the task kept running until %v: the interface is deaf", e.ID, e.T, e.Gen, f.end(e.Gen)), advDetail(c, res.ev))
		return false
	}
	return true
}

// advC07 is the exactly-once / destination / timing / conservation oracle.
func advC07(r *vlib.Run, c *advCase, res *advResult) {
	ev := res.ev
	f := advAnalyze(c, ev)
	det := func() map[string]any { return advDetail(c, ev) }
	if !advTaken(r, c, res) {
		return
	}
	type rsRec struct {
		t       time.Duration
		gen     int
		matched bool
	}
	rsBySrc := map[string][]*rsRec{}
	validRS, validRA := 0, 0
	for _, e := range ev {
		if e.Kind != "read_deliver" || e.Val != 255 {
			continue
		}
		switch {
		case strings.Contains(e.Msg, "router solicitation"):
			validRS++
			if e.Src != "::" {
				rsBySrc[e.Src] = append(rsBySrc[e.Src], &rsRec{t: e.T, gen: e.Gen})
			}
		case strings.Contains(e.Msg, "router advertisement"):
			validRA++
		}
	}
	// writes
	okUnicast, okMulticast, failed := 0, 0, 0
	endOf := map[string]vfake.Event{}
	for _, e := range ev {
		if e.Kind == "write_end" {
			endOf[fmt.Sprintf("%d/%d", e.Gen, e.ID)] = e
		}
	}
	final := map[int]bool{}
	for _, ix := range f.finalIx {
		final[ix] = true
	}
	for k, w := range f.writes {
		ix := f.writeIx[k]
		isInitial := f.initialIx[w.Gen] == ix && !c.UnicastOnly
		multicast := w.Dst == vAllNodes.String()
		if multicast && c.UnicastOnly {
			r.Violation(c.ID, "multicast-in-unicast-only", fmt.Sprintf("unicast-only interface transmitted to %s at %v", w.Dst, w.T), det())
			return
		}
		if netip.MustParseAddr(w.Dst).IsMulticast() && !multicast {
			r.Violation(c.ID, "wrong-destination", "RA sent to an unexpected multicast group "+w.Dst, det())
			return
		}
		we, done := endOf[fmt.Sprintf("%d/%d", w.Gen, w.ID)]
		scheduled := !isInitial && !final[ix]
		if scheduled && done {
			switch {
			case we.Err != "":
				failed++
			case multicast:
				okMulticast++
			default:
				okUnicast++
			}
		}
		if multicast {
			continue
		}
		// unicast: must answer exactly one pending solicitation from that source
		recs := rsBySrc[w.Dst]
		found := false
		for _, rs := range recs {
			if rs.matched || rs.gen != w.Gen {
				continue
			}
			d := w.T - rs.t
			if d < 0 {
				continue
			}
			// The delay is drawn from [0,500ms); the injected State-read latency
			// passes between the end of the delay and write_begin.
			if vTiming && d >= vMaxRADelay+c.FwdLat {
				continue
			}
			rs.matched, found = true, true
			r.Count("unicast_answers_matched", 1)
			r.Max("max_unicast_delay_ns", int64(d))
			r.Min("min_unicast_delay_ns", int64(d))
			break
		}
		if !found {
			cls := "answered-twice-or-late"
			if len(recs) == 0 {
				cls = "answered-without-valid-solicitation"
			}
			r.Violation(c.ID, cls, fmt.Sprintf("unicast RA to %s at %v matches no valid, unanswered solicitation from that address within [0,500ms)", w.Dst, w.T), det())
			return
		}
	}
	for src, recs := range rsBySrc {
		for _, rs := range recs {
			if rs.matched {
				continue
			}
			if rs.t+vMaxRADelay+c.FwdLat > f.end(rs.gen) {
				r.Count("rs_unanswered_because_stopped", 1)
				continue // stopped or re-initialised before it was due
			}
			if !vTiming {
				// Without exact timing only a clearly missed answer counts.
				if rs.t+vMaxRADelay+time.Second > f.end(rs.gen) {
					continue
				}
			}
			// K1: mdlayher/schedgroup v1.0.0 loses the wake-up of a task scheduled
			// while its monitor goroutine is handling a timer.  In virtual time that
			// can only happen when the solicitation is delivered in the same instant
			// as another scheduler event; under real parallelism (-race pass) such a
			// loss is the known dependency finding, not a new one.
			if !vTiming && advCoincident(ev, rs.t, rs.gen) {
				if c.ReportK1 {
					r.Violation(c.ID, "k1-signature:solicitation-lost", fmt.Sprintf("solicitation from %s at %v, delivered in the same instant as another scheduler event, was never answered (schedgroup lost wake-up)", src, rs.t), det())
				} else {
					r.Count("k1_signature_losses_ignored", 1)
				}
				continue
			}
			r.Violation(c.ID, "solicitation-lost", fmt.Sprintf("valid solicitation from %s at %v was never answered although the interface kept running until %v", src, rs.t, f.end(rs.gen)), det())
			return
		}
	}
	// conservation (only once Run has returned, so no worker is in flight)
	if res.returned {
		name := "interface=" + "veth0"
		chk := func(metric, key string, want int) bool {
			got := res.metric(metric, key)
			if int(got) != want {
				r.Violation(c.ID, "counter:"+metric+"{"+strings.TrimPrefix(key, name+",")+"}", fmt.Sprintf("%s{%s} = %v, but the trace shows %d", metric, key, got, want), det())
				return false
			}
			return true
		}
		// A scheduled transmission whose RA cannot even be built (the forwarding state
		// is unreadable) fails without the socket ever seeing it; the initial RA of
		// a generation is not a scheduled transmission.  So every failed write
		// counts, and each failed forwarding read may.
		fwdFailed := 0
		for _, e := range ev {
			if e.Kind == "fwd_read" && e.Err != "" {
				fwdFailed++
			}
		}
		chkErr := func() bool {
			if fwdFailed == 0 {
				return chk("corerad_advertiser_errors_total", name+",error=transmit", failed)
			}
			got := int(res.metric("corerad_advertiser_errors_total", name+",error=transmit"))
			if got < failed || got > failed+fwdFailed {
				r.Violation(c.ID, "counter:corerad_advertiser_errors_total{error=transmit}", fmt.Sprintf("corerad_advertiser_errors_total{%s,error=transmit} = %d, but the trace shows %d failed writes and %d RAs that could not be built", name, got, failed, fwdFailed), det())
				return false
			}
			return true
		}
		if !chk("corerad_advertiser_router_advertisements_total", name+",type=unicast", okUnicast) ||
			!chk("corerad_advertiser_router_advertisements_total", name+",type=multicast", okMulticast) ||
			!chkErr() ||
			!chk("corerad_advertiser_messages_received_total", name+",message=router solicitation", validRS) ||
			!chk("corerad_advertiser_messages_received_total", name+",message=router advertisement", validRA) {
			return
		}
		r.Count("conservation_checks", 5)
	}
}

// advFwdAtStop is the forwarding state at the moment of the stop request.
func advFwdAtStop(c *advCase) bool {
	fwd := c.Fwd
	for _, s := range c.Steps {
		if s.Kind == "fwd" && s.At <= c.StopAt {
			fwd = s.On
		}
	}
	return fwd
}

// advCoincident reports whether another scheduler-relevant event (a worker's
// transmission or another delivered message) carries the same timestamp.
func advCoincident(ev []vfake.Event, t time.Duration, gen int) bool {
	n := 0
	for _, e := range ev {
		if e.T == t && e.Gen == gen && (e.Kind == "write_begin" || e.Kind == "read_deliver") {
			n++
		}
	}
	return n >= 2
}

// advC08 is the termination oracle.
func advC08(r *vlib.Run, c *advCase, res *advResult) {
	ev := res.ev
	f := advAnalyze(c, ev)
	det := func() map[string]any { return advDetail(c, ev) }
	if !res.returned {
		r.Violation(c.ID, "no-return", "Run had not returned 200 virtual seconds after it was asked to stop", det())
		return
	}
	if res.runErr != nil {
		r.Violation(c.ID, "stop-reports-error", "Run reported an error on a requested stop: "+res.runErr.Error(), det())
		return
	}
	// nothing after return
	for i := f.returnIx + 1; i < len(ev) && f.returnIx >= 0; i++ {
		if ev[i].Kind == "write_begin" || ev[i].Kind == "write_end" {
			r.Violation(c.ID, "transmit-after-return", fmt.Sprintf("%s at %v after Run returned at %v", ev[i].Kind, ev[i].T, ev[f.returnIx].T), det())
			return
		}
	}
	// promptness, in virtual time: only latencies injected into the operations
	// in flight may pass between the request and the return.
	budget := 2*(c.WriteLat+c.FwdLat) + time.Millisecond
	if d := ev[f.returnIx].T - time.Duration(f.cancelT); vTiming && f.cancelT >= 0 && d > budget {
		r.Violation(c.ID, "slow-stop", fmt.Sprintf("Run returned %v after the stop request (budget %v)", d, budget), det())
		return
	}
	fwdAtStop := advFwdAtStop(c)
	if c.Lifetime == "0s" || !fwdAtStop {
		// Every RA has lifetime 0, so the final RA cannot be told apart from one
		// that was about to be sent anyway; but a terminating advertiser must
		// still transmit it, last (hosts may hold a default route from an RA sent
		// while the interface was still forwarding).
		if c.Terminate && !c.UnicastOnly && f.cancelIx >= 0 {
			last := -1
			for k := range f.writes {
				if int64(f.writeIx[k]) >= f.cancelIx {
					last = k
				}
			}
			if last < 0 {
				r.Violation(c.ID, "final-ra-count", "terminating advertiser (interface not forwarding at the stop) transmitted no final RA at all", det())
				return
			}
			if w := f.writes[last]; w.Dst != vAllNodes.String() || w.Life != 0 {
				r.Violation(c.ID, "final-ra-not-last", fmt.Sprintf("the last packet after the stop request went to %s with lifetime %v", w.Dst, time.Duration(w.Life)), det())
				return
			}
			r.Count("final_ra_seen_last_not_forwarding", 1)
		}
		return
	}
	var finals, after []int
	for k, w := range f.writes {
		ix := f.writeIx[k]
		if int64(ix) < f.cancelIx {
			continue
		}
		if w.Dst == vAllNodes.String() && w.Life == 0 {
			finals = append(finals, ix)
		}
		after = append(after, ix)
	}
	switch {
	case c.UnicastOnly:
		if len(finals) != 0 {
			r.Violation(c.ID, "multicast-in-unicast-only", "unicast-only interface sent a final multicast RA", det())
		}
	case c.Terminate:
		if len(finals) != 1 {
			r.Violation(c.ID, "final-ra-count", fmt.Sprintf("terminating advertiser sent %d zero-lifetime RAs, want exactly 1", len(finals)), det())
			return
		}
		if last := after[len(after)-1]; last != finals[0] {
			r.Violation(c.ID, "final-ra-not-last", fmt.Sprintf("a packet was transmitted at %v after the final zero-lifetime RA at %v", ev[last].T, ev[finals[0]].T), det())
			return
		}
		r.Count("final_ra_seen_last", 1)
	default:
		if len(finals) != 0 {
			r.Violation(c.ID, "final-ra-on-reload", "reloading advertiser sent a zero-lifetime RA", det())
			return
		}
		r.Count("reload_without_final_ra", 1)
	}
}

// advClass reports which stop-instant class the trace actually exhibits.
func advClass(c *advCase, ev []vfake.Event) string {
	f := advAnalyze(c, ev)
	if f.cancelIx < 0 {
		return "none"
	}
	ct := time.Duration(f.cancelT)
	// transmission in flight: a worker's fwd_read_begin or write_begin before cancel with its write_end after
	open := map[string]bool{}
	fwdOpen := 0
	sameInstantRS := false
	pendingRS := false
	for i, e := range ev {
		if int64(i) < f.cancelIx {
			switch e.Kind {
			case "write_begin":
				open[fmt.Sprintf("%d/%d", e.Gen, e.ID)] = true
			case "write_end":
				delete(open, fmt.Sprintf("%d/%d", e.Gen, e.ID))
			case "fwd_read_begin":
				fwdOpen++
			case "fwd_read":
				fwdOpen--
			case "read_deliver":
				if e.T == ct {
					sameInstantRS = true
				}
				if ct-e.T < vMaxRADelay && e.Src != "::" {
					pendingRS = true
				}
			}
		} else if e.Kind == "read_deliver" && e.T == ct {
			sameInstantRS = true
		}
	}
	switch {
	case len(open) > 0 || fwdOpen > 0:
		return "in-flight"
	case sameInstantRS:
		return "concurrent-rs"
	case pendingRS:
		return "pending"
	}
	return "idle"
}

// sortSteps orders steps by time, stably.
func sortSteps(s []advStep) { sort.SliceStable(s, func(i, j int) bool { return s[i].At < s[j].At }) }
