//go:build verif

package system

import (
	"bufio"
	"context"
	"errors"
	"fmt"
	"io"
	"log"
	"os"
	"os/exec"
	"runtime"
	"strings"
	"testing"
	"time"

	"verif.local/vlib"
)

// faultState delegates to the real /proc/sys State and injects faults.
type faultState struct {
	real              State
	getF, setF, restF error // applied to the next call of that kind, then cleared
	setCalls          int
	log               []string
}

func (f *faultState) IPv6Autoconf(iface string) (bool, error) {
	if err := f.getF; err != nil {
		f.getF = nil
		f.log = append(f.log, "get -> "+err.Error())
		return false, err
	}
	v, err := f.real.IPv6Autoconf(iface)
	f.log = append(f.log, fmt.Sprintf("get -> %v %v", v, err))
	return v, err
}
func (f *faultState) IPv6Forwarding(iface string) (bool, error) { return f.real.IPv6Forwarding(iface) }
func (f *faultState) SetIPv6Autoconf(iface string, v bool) error {
	f.setCalls++
	inj := &f.setF
	if f.setCalls%2 == 0 {
		inj = &f.restF
	}
	if err := *inj; err != nil {
		*inj = nil
		f.log = append(f.log, fmt.Sprintf("set %v -> %v", v, err))
		return err
	}
	err := f.real.SetIPv6Autoconf(iface, v)
	f.log = append(f.log, fmt.Sprintf("set %v -> %v", v, err))
	return err
}

func vRawSockets() int {
	f, err := os.Open("/proc/net/raw6")
	if err != nil {
		return -1
	}
	defer f.Close()
	n := -1
	sc := bufio.NewScanner(f)
	for sc.Scan() {
		n++
	}
	return n
}

// vAllRoutersUsers returns the user count of ff02::2 on iface (the kernel
// itself holds one reference while the interface is forwarding).
func vAllRoutersUsers(iface string) int {
	b, err := os.ReadFile("/proc/net/igmp6")
	if err != nil {
		return -1
	}
	for _, l := range strings.Split(string(b), "\n") {
		f := strings.Fields(l)
		if len(f) >= 4 && f[1] == iface && f[2] == "ff020000000000000000000000000002" {
			n := 0
			fmt.Sscan(f[3], &n)
			return n
		}
	}
	return 0
}

var vBaseUsers int

func vAllRoutersJoined(iface string) bool { return vAllRoutersUsers(iface) > vBaseUsers }

func vAutoconf(iface string) string {
	b, _ := os.ReadFile("/proc/sys/net/ipv6/conf/" + iface + "/autoconf")
	return strings.TrimSpace(string(b))
}

// TestVerifC11Netns — the real dial()/dialNDP/sysctl path in a private network
// namespace (run through tools/netns.sh).
func TestVerifC11Netns(t *testing.T) {
	r := vlib.Start("C11", "netns")
	defer r.Finish()
	if os.Getenv("VERIF_IN_NETNS") != "1" {
		r.Inconclusive("netns", "not running inside the private network namespace")
		return
	}
	base := vRawSockets()
	vBaseUsers = vAllRoutersUsers("va")
	if base < 0 || vBaseUsers < 0 {
		r.Inconclusive("netns", "unexpected initial namespace state")
		return
	}
	type plan struct {
		mode          DialerMode
		auto0         string
		get, set, rst string // n p e x : fault on the FIRST connection
		tasks         string // outcome letters per task run: N L S X C
	}
	faults := map[byte]error{'p': fmt.Errorf("write: %w", os.ErrPermission), 'e': fmt.Errorf("open: %w", os.ErrNotExist), 'x': errors.New("verif: sysctl failure")}
	var plans []plan
	for _, a0 := range []string{"1", "0"} {
		for _, tk := range []string{"N", "LN", "SN", "X", "C", "LLN"} {
			plans = append(plans, plan{Advertise, a0, "n", "n", "n", tk})
		}
		for _, g := range "pex" {
			plans = append(plans, plan{Advertise, a0, string(g), "n", "n", "N"})
		}
		for _, s := range "pex" {
			plans = append(plans, plan{Advertise, a0, "n", string(s), "n", "N"}, plan{Advertise, a0, "n", string(s), "n", "LN"})
		}
		for _, x := range "pex" {
			plans = append(plans, plan{Advertise, a0, "n", "n", string(x), "N"}, plan{Advertise, a0, "n", "n", string(x), "LN"})
		}
		plans = append(plans, plan{Monitor, a0, "n", "n", "n", "N"}, plan{Monitor, a0, "n", "n", "n", "LN"}, plan{Monitor, a0, "n", "n", "n", "C"})
	}
	reps := r.Pick(1, 8)
	for rep := 0; rep < reps; rep++ {
		for i, p := range plans {
			id := fmt.Sprintf("plan/%d/%d", rep, i)
			if !r.Mine(id) {
				continue
			}
			r.Begin(id)
			r.Nontrivial(id)
			_ = os.WriteFile("/proc/sys/net/ipv6/conf/va/autoconf", []byte(p.auto0), 0o644)
			fs := &faultState{real: NewState()}
			fs.getF, fs.setF, fs.restF = faults[p.get[0]], faults[p.set[0]], faults[p.rst[0]]
			d := NewDialer("va", fs, p.mode, log.New(io.Discard, "", 0))
			ctx, cancel := context.WithCancel(context.Background())
			var obs []string
			ti := 0
			viol := ""
			note := func(f string, a ...any) { obs = append(obs, fmt.Sprintf(f, a...)) }
			start := time.Now()
			err := d.Dial(ctx, func(ctx context.Context, dctx *DialContext) error {
				o := byte('N')
				if ti < len(p.tasks) {
					o = p.tasks[ti]
				}
				ti++
				socks, joined, auto := vRawSockets(), vAllRoutersJoined("va"), vAutoconf("va")
				note("task %d (%c): raw6 sockets=%d all-routers=%v autoconf=%s", ti, o, socks, joined, auto)
				if socks != base+1 && viol == "" {
					viol = fmt.Sprintf("leak: %d NDP sockets are open while connection %d is in use (want exactly 1)", socks-base, ti)
				}
				if !joined && viol == "" {
					viol = "the connection in use has not joined ff02::2"
				}
				wantAuto := "0"
				if p.mode == Monitor || (ti == 1 && p.set == "p") {
					wantAuto = p.auto0
				}
				if auto != wantAuto && viol == "" && !(ti > 1 && p.rst != "n") {
					viol = fmt.Sprintf("autoconf is %s while connection %d is in use, want %s", auto, ti, wantAuto)
				}
				switch o {
				case 'L':
					return fmt.Errorf("x: %w", ErrLinkChange)
				case 'S':
					return fmt.Errorf("x: %w", vErrSys)
				case 'X':
					return vErrOther
				case 'C':
					cancel()
					<-ctx.Done()
				}
				return nil
			})
			cancel()
			runtime.Gosched()
			socks, joined, auto := vRawSockets(), vAllRoutersJoined("va"), vAutoconf("va")
			note("returned %v after %v: raw6 sockets=%d all-routers=%v autoconf=%s", err, time.Since(start).Round(time.Millisecond), socks, joined, auto)
			det := map[string]any{"plan": fmt.Sprintf("%+v", p), "observations": obs, "state_calls": fs.log}
			r.Count("quiescent_observations", len(obs))
			switch {
			case viol != "":
			case socks != base:
				viol = fmt.Sprintf("leak: %d NDP socket(s) still open after Dial returned (%v)", socks-base, err)
			case joined:
				viol = "still joined to ff02::2 after Dial returned"
			}
			restoreFailed := p.rst != "n" && p.mode == Advertise && ti >= 1 || (p.set == "p")
			if viol == "" && auto != p.auto0 && !restoreFailed && p.mode == Advertise {
				viol = fmt.Sprintf("autoconf is %s after Dial returned, it was %s before", auto, p.auto0)
			}
			if viol == "" && p.mode == Monitor && auto != p.auto0 {
				viol = "a monitoring dialer changed autoconf"
			}
			if viol == "" {
				wantErr := p.get != "n" || (p.set != "n" && p.set != "p") || p.rst == "x" || strings.Contains(p.tasks, "X")
				if p.mode == Monitor {
					wantErr = strings.Contains(p.tasks, "X")
				}
				if (err != nil) != wantErr {
					viol = fmt.Sprintf("Dial returned %v, an error is expected: %v", err, wantErr)
				}
			}
			if viol != "" {
				cls := "netns:" + strings.SplitN(viol, " ", 2)[0]
				r.Violation(id, cls, viol, det)
			} else if r.WantSample() && len(obs) > 2 {
				r.Sample(det)
			}
		}
	}
	vTentative(r, base)
	vVanish(r, base)
}

// vVanish: the interface disappears while its connection is held (a hot-plugged
// or virtual interface removed under the daemon).  The restore of autoconf then
// fails with "no such file" from the real /proc/sys backend — with the error
// chain the real backend produces, not a bare sentinel — and must be tolerated:
// Dial reports no error for it, the socket is gone, nothing is leaked.
func vVanish(r *vlib.Run, base int) {
	sh := func(args ...string) error { return exec.Command(args[0], args[1:]...).Run() }
	n := 0
	for rep := 0; rep < r.Pick(1, 3); rep++ {
		for _, a0 := range []string{"1", "0"} {
			for _, outcome := range []string{"nil", "cancel"} {
				id := fmt.Sprintf("vanish/%d/%s/%s", rep, a0, outcome)
				if !r.Mine(id) {
					continue
				}
				r.Begin(id)
				n++
				vw, vx := fmt.Sprintf("vw%d", n), fmt.Sprintf("vx%d", n)
				if err := sh("ip", "link", "add", vw, "type", "veth", "peer", "name", vx); err != nil {
					r.Inconclusive(id, "cannot create the veth pair: "+err.Error())
					continue
				}
				conf := "/proc/sys/net/ipv6/conf/" + vw + "/"
				_ = os.WriteFile(conf+"accept_dad", []byte("0"), 0o644)
				_ = os.WriteFile(conf+"dad_transmits", []byte("0"), 0o644)
				_ = os.WriteFile(conf+"accept_ra", []byte("0"), 0o644)
				_ = os.WriteFile(conf+"autoconf", []byte(a0), 0o644)
				_ = sh("ip", "link", "set", vx, "up")
				_ = sh("ip", "link", "set", vw, "up")
				ready := false
				for i := 0; i < 150 && !ready; i++ {
					out, _ := exec.Command("ip", "-6", "addr", "show", "dev", vw, "scope", "link").Output()
					ready = strings.Contains(string(out), "fe80") && !strings.Contains(string(out), "tentative")
					if !ready {
						time.Sleep(20 * time.Millisecond)
					}
				}
				if !ready {
					r.Inconclusive(id, "no usable link-local address appeared")
					_ = sh("ip", "link", "del", vw)
					continue
				}
				var logs strings.Builder
				fs := &faultState{real: NewState()}
				d := NewDialer(vw, fs, Advertise, log.New(&logs, "", 0))
				ctx, cancel := context.WithCancel(context.Background())
				runs := 0
				during := ""
				err := d.Dial(ctx, func(ctx context.Context, _ *DialContext) error {
					runs++
					during = vAutoconf(vw)
					_ = sh("ip", "link", "del", vw)
					if outcome == "cancel" {
						cancel()
						<-ctx.Done()
					}
					return nil
				})
				cancel()
				socks := vRawSockets()
				det := map[string]any{"autoconf_before": a0, "autoconf_while_held": during, "dial_error": fmt.Sprint(err), "task_runs": runs,
					"raw6_sockets_over_base": socks - base, "state_calls": fs.log, "dialer_log": logs.String()}
				r.Count("quiescent_observations", 1)
				switch {
				case runs != 1:
					r.Inconclusive(id, fmt.Sprintf("the task ran %d times", runs))
				case during != "0":
					r.Violation(id, "netns:autoconf", "autoconf is "+during+" while an advertising connection is held, want 0", det)
				case socks != base:
					r.Violation(id, "netns:leak:", fmt.Sprintf("leak: %d NDP socket(s) still open after Dial returned (interface removed while connected)", socks-base), det)
				case err != nil:
					r.Violation(id, "netns:vanished-restore-not-tolerated", "the interface vanished while connected; restoring autoconf on it cannot work and must be tolerated, but Dial returned: "+err.Error(), det)
				default:
					r.Nontrivial(id)
					r.Count("interface_vanished_while_connected", 1)
					if r.WantSample() {
						r.Sample(det)
					}
				}
				_ = sh("ip", "link", "del", vw)
			}
		}
	}
}

// vTentative drives the real dial path on an interface whose link-local
// address exists but is still tentative (duplicate address detection running):
// the readiness checks pass, the NDP listener cannot bind (EADDRNOTAVAIL, a
// retryable error), and the Dialer sits in its retry loop until cancelled.
// Whatever order dial() does its steps in, afterwards no socket may remain and
// autoconf must have the value it had before.
func vTentative(r *vlib.Run, base int) {
	sh := func(args ...string) error { return exec.Command(args[0], args[1:]...).Run() }
	reps := r.Pick(1, 4)
	vtN := 0
	for rep := 0; rep < reps; rep++ {
		for _, a0 := range []string{"1", "0"} {
			for _, cancelAfter := range []time.Duration{150 * time.Millisecond, 700 * time.Millisecond} {
				id := fmt.Sprintf("tentative/%d/%s/%v", rep, a0, cancelAfter)
				if !r.Mine(id) {
					continue
				}
				r.Begin(id)
				// A fresh name every time: package net caches zone indices by name.
				vtN++
				vt, vu := fmt.Sprintf("vt%d", vtN), fmt.Sprintf("vu%d", vtN)
				if err := sh("ip", "link", "add", vt, "type", "veth", "peer", "name", vu); err != nil {
					r.Inconclusive(id, "cannot create the veth pair: "+err.Error())
					continue
				}
				conf := "/proc/sys/net/ipv6/conf/" + vt + "/"
				_ = os.WriteFile(conf+"accept_dad", []byte("1"), 0o644)
				_ = os.WriteFile(conf+"dad_transmits", []byte("30"), 0o644)
				_ = os.WriteFile(conf+"accept_ra", []byte("0"), 0o644)
				_ = os.WriteFile(conf+"autoconf", []byte(a0), 0o644)
				_ = sh("ip", "link", "set", vu, "up")
				_ = sh("ip", "link", "set", vt, "up")
				tentative := false
				for i := 0; i < 100 && !tentative; i++ {
					out, _ := exec.Command("ip", "-6", "addr", "show", "dev", vt, "scope", "link").Output()
					tentative = strings.Contains(string(out), "tentative")
					if !tentative {
						time.Sleep(20 * time.Millisecond)
					}
				}
				if !tentative {
					r.Inconclusive(id, "no tentative link-local address appeared")
					_ = sh("ip", "link", "del", vt)
					continue
				}
				var logs strings.Builder
				fs := &faultState{real: NewState()}
				d := NewDialer(vt, fs, Advertise, log.New(&logs, "", 0))
				ctx, cancel := context.WithCancel(context.Background())
				tm := time.AfterFunc(cancelAfter, cancel)
				called := 0
				err := d.Dial(ctx, func(ctx context.Context, _ *DialContext) error {
					called++
					cancel()
					return nil
				})
				tm.Stop()
				cancel()
				socks, auto := vRawSockets(), vAutoconf(vt)
				bindFailed := strings.Contains(logs.String(), "cannot assign requested address")
				det := map[string]any{"autoconf_before": a0, "autoconf_after": auto, "raw6_sockets_over_base": socks - base,
					"task_runs": called, "dial_error": fmt.Sprint(err), "state_calls": fs.log, "dialer_log": logs.String()}
				if bindFailed && called == 0 {
					r.Nontrivial(id)
					r.Count("listen_failed_on_tentative_address", 1)
				} else {
					r.Count("tentative_not_reached", 1)
				}
				r.Count("quiescent_observations", 1)
				switch {
				case socks != base:
					r.Violation(id, "netns:leak:", fmt.Sprintf("leak: %d NDP socket(s) still open after Dial returned although the listener could not be opened", socks-base), det)
				case auto != a0:
					r.Violation(id, "netns:autoconf", fmt.Sprintf("autoconf is %s after Dial returned, it was %s before (the listener could never be opened)", auto, a0), det)
				default:
					if r.WantSample() {
						r.Sample(det)
					}
				}
				_ = sh("ip", "link", "del", vt)
			}
		}
	}
}
