//go:build verif && linux

package system

import (
	"errors"
	"fmt"
	"math"
	"net"
	"net/netip"
	"os"
	"reflect"
	"sort"
	"testing"

	"github.com/jsimonetti/rtnetlink"
	"github.com/mdlayher/netlink"
	"golang.org/x/sys/unix"
	"verif.local/vlib"
)

// TestVerifAddresser — the Linux address/route source underneath the wildcards
// (C13: "a failure to list addresses fails RA generation rather than silently
// advertising nothing").  The rtnetlink round trip is scripted through the
// addresser's own execute hook: k consecutive dumps fail with one error, then a
// dump succeeds.  Whatever retry policy the code has, a result without error
// must be the decoding of a dump that succeeded during that very call; a call
// during which every dump failed must report an error.
func TestVerifAddresser(t *testing.T) {
	r := vlib.Start(os.Getenv("VERIF_PROP"), "addresser")
	defer r.Finish()

	type errKind struct {
		name string
		err  error
	}
	errs := []errKind{
		{"EINTR", unix.EINTR}, {"EAGAIN", unix.EAGAIN}, {"ENOBUFS", unix.ENOBUFS}, {"ENODEV", unix.ENODEV}, {"EPERM", unix.EPERM},
		{"syscall-EINTR", os.NewSyscallError("recvmsg", unix.EINTR)}, {"syscall-ENOBUFS", os.NewSyscallError("recvmsg", unix.ENOBUFS)},
		{"netlink-EINTR", &netlink.OpError{Op: "receive", Err: unix.EINTR}}, {"netlink-EAGAIN", &netlink.OpError{Op: "receive", Err: unix.EAGAIN}},
		{"netlink-ENODEV", &netlink.OpError{Op: "receive", Err: unix.ENODEV}}, {"other", errors.New("verif: netlink broke")},
	}
	addrMsgs := func(n int) []rtnetlink.Message {
		var out []rtnetlink.Message
		for i := 0; i < n; i++ {
			ip := net.ParseIP(fmt.Sprintf("2001:db8:%x::%x", i/2, i+1))
			out = append(out, &rtnetlink.AddressMessage{Family: unix.AF_INET6, PrefixLength: 64, Index: 7,
				Attributes: &rtnetlink.AddressAttributes{Address: ip, Flags: []uint32{0, unix.IFA_F_DEPRECATED, unix.IFA_F_TENTATIVE, unix.IFA_F_MANAGETEMPADDR}[i%4],
					CacheInfo: rtnetlink.CacheInfo{Valid: []uint32{math.MaxUint32, 3600}[i%2]}}})
		}
		return out
	}
	routeMsgs := func(n int) []rtnetlink.Message {
		var out []rtnetlink.Message
		for i := 0; i < n; i++ {
			out = append(out, &rtnetlink.RouteMessage{Family: unix.AF_INET6, DstLength: uint8(48 + 16*(i%2)),
				Attributes: rtnetlink.RouteAttributes{Dst: net.ParseIP(fmt.Sprintf("2001:db8:%x::", i+1)), OutIface: 1}})
		}
		return out
	}
	whats := []string{"addresses"}
	if r.Prop == "C15" {
		whats = []string{"routes"}
	}
	for _, what := range whats {
		for _, ek := range errs {
			for fails := 0; fails <= 6; fails++ {
				for _, n := range []int{0, 1, 5} {
					id := fmt.Sprintf("addresser/%s/%s/%d/%d", what, ek.name, fails, n)
					if !r.Mine(id) {
						continue
					}
					r.Begin(id)
					if fails > 0 {
						r.Nontrivial(id)
					}
					calls, okCalls := 0, 0
					a := &addresser{}
					a.execute = func(m rtnetlink.Message, family uint16, flags netlink.HeaderFlags) ([]rtnetlink.Message, error) {
						calls++
						if calls <= fails {
							return nil, ek.err
						}
						okCalls++
						if what == "addresses" {
							return addrMsgs(n), nil
						}
						return routeMsgs(n), nil
					}
					var gotN int
					var err error
					var keys []string
					ok := r.Guard(id, "panic", func() {
						if what == "addresses" {
							var ips []IP
							ips, err = a.AddressesByIndex(7)
							gotN = len(ips)
							for _, ip := range ips {
								keys = append(keys, ip.Address.String())
							}
						} else {
							var rs []Route
							rs, err = a.LoopbackRoutes()
							gotN = len(rs)
							for _, x := range rs {
								keys = append(keys, x.Prefix.String())
							}
						}
					})
					if !ok {
						continue
					}
					det := map[string]any{"source": what, "error_injected": ek.name, "consecutive_failures": fails, "dump_size": n,
						"execute_calls": calls, "successful_dumps": okCalls, "returned": keys, "returned_error": fmt.Sprint(err)}
					r.Count("addresser_calls_observed", 1)
					switch {
					case calls == 0:
						r.Count("no_dump_attempted", 1) // no loopback interface is up: nothing to observe
					case err == nil && okCalls == 0:
						r.Violation(id, "source-error-swallowed", fmt.Sprintf("every one of the %d %s dump(s) made by this call failed (%v) but the call reported no error and %d entries: the wildcard would silently advertise nothing", calls, what, ek.err, gotN), det)
					case err == nil:
						// the decoding of a successful dump: n entries (routes: n per up loopback interface)
						want := map[string]bool{}
						var msgs []rtnetlink.Message
						if what == "addresses" {
							msgs = addrMsgs(n)
						} else {
							msgs = routeMsgs(n)
						}
						for _, m := range msgs {
							switch m := m.(type) {
							case *rtnetlink.AddressMessage:
								ip, _ := netip.AddrFromSlice(m.Attributes.Address)
								want[netip.PrefixFrom(ip, int(m.PrefixLength)).String()] = true
							case *rtnetlink.RouteMessage:
								ip, _ := netip.AddrFromSlice(m.Attributes.Dst)
								want[netip.PrefixFrom(ip, int(m.DstLength)).String()] = true
							}
						}
						got := map[string]bool{}
						for _, k := range keys {
							got[k] = true
						}
						if !reflect.DeepEqual(want, got) && !(len(want) == 0 && len(got) == 0) {
							var w []string
							for k := range want {
								w = append(w, k)
							}
							sort.Strings(w)
							det["dump_decodes_to"] = w
							r.Violation(id, "source-result-wrong", fmt.Sprintf("the call returned %v, the successful dump decodes to %v", keys, w), det)
						}
					case okCalls > 0 && fails == 0:
						r.Violation(id, "source-spurious-error", "the dump succeeded at once but the call reported "+err.Error(), det)
					}
				}
			}
		}
	}
}
