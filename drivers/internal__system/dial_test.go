//go:build verif

package system

import (
	"context"
	"errors"
	"fmt"
	"io"
	"log"
	"net"
	"os"
	"reflect"
	"strings"
	"syscall"
	"testing"
	"testing/synctest"
	"time"
	"unsafe"

	"verif.local/vfake"
	"verif.local/vlib"
)

// Outcome alphabets.  Dial outcomes: o(k) l(ink not ready) s(yscall) p(ermission) x(other).
// Task outcomes: N(il) L(ink change) S(yscall) P(ermission) T(imeout exhaustion) X(other) C(ancelled: blocks until ctx is done).
const (
	vDialAlpha = "olspx"
	vTaskAlpha = "NLSPTXC"
)

var (
	vErrSys   = os.NewSyscallError("recvmsg", syscall.ENETDOWN)
	vErrPerm  = os.NewSyscallError("socket", syscall.EPERM)
	vErrOther = errors.New("verif: other error")
	vErrExh   = errors.New("exhausted receive retries")
)

// vShape rotates the shape of the injected system call errors (reset at the
// start of every scenario): bare *os.SyscallError values and, as the socket
// layer reports them, *net.OpError around one; EPERM and EACCES both mean
// "permission".
var vShape int

func vSysErr() error {
	vShape++
	switch vShape % 3 {
	case 0:
		return &net.OpError{Op: "read", Net: "ip6:ipv6-icmp", Err: os.NewSyscallError("recvmsg", syscall.ENOBUFS)}
	case 1:
		return &net.OpError{Op: "listen", Net: "ip6:ipv6-icmp", Err: os.NewSyscallError("bind", syscall.EADDRNOTAVAIL)}
	}
	return vErrSys
}

func vPermErr() error {
	vShape++
	if vShape%2 == 0 {
		return &net.OpError{Op: "listen", Net: "ip6:ipv6-icmp", Err: os.NewSyscallError("socket", syscall.EACCES)}
	}
	return vErrPerm
}

func vDialErr(c byte) error {
	switch c {
	case 'l':
		return fmt.Errorf("interface not ready: %w", ErrLinkNotReady)
	case 's':
		return fmt.Errorf("dial: %w", vSysErr())
	case 'p':
		return fmt.Errorf("dial: %w", vPermErr())
	case 'x':
		return vErrOther
	}
	return nil
}

func vTaskErr(c byte) error {
	switch c {
	case 'L':
		return fmt.Errorf("failed to run: %w", ErrLinkChange)
	case 'S':
		return fmt.Errorf("failed to run: %w", vSysErr())
	case 'P':
		return fmt.Errorf("failed to run: %w", vPermErr())
	case 'T':
		return fmt.Errorf("failed to read NDP messages: %w", vErrExh)
	case 'X':
		return vErrOther
	}
	return nil
}

func vRecoverable(c byte) bool { return c == 'l' || c == 's' || c == 'L' || c == 'S' }

// A dialCase is a script: the outcomes consumed in order by dial attempts and
// task runs (when exhausted: dial ok, task nil), a cancel instant and the
// sysctl fault plan.
type dialCase struct {
	ID       string
	Dials    string
	Tasks    string
	CancelAt time.Duration // 0 = never
	Mode     DialerMode
	Auto0    bool          // initial autoconf value
	GetF     string        // per successful-socket dial: fault of the autoconf get  (n p e x), indexed by socket number
	SetF     string        // fault of the disable write
	RestF    string        // fault of the restore write
	DialLat  time.Duration // every dial attempt takes this long (virtual)
}

const vTaskLen = time.Second

type dialExpect struct {
	dialTimes []time.Duration
	endT      time.Duration
	endNil    bool
	dontcare  string
}

func vDelay(i int) time.Duration {
	d := time.Duration(i) * 250 * time.Millisecond
	if d > 3*time.Second {
		d = 3 * time.Second
	}
	return d
}

func vFaultErr(c byte) error {
	switch c {
	case 'p':
		return fmt.Errorf("write: %w", os.ErrPermission)
	case 'e':
		return fmt.Errorf("open: %w", os.ErrNotExist)
	case 'x':
		return errors.New("verif: sysctl failure")
	}
	return nil
}

func at(s string, i int) byte {
	if i < len(s) {
		return s[i]
	}
	return 0
}

// vSimulate is the policy automaton written from the statement of C10/C11.
func vSimulate(c *dialCase) dialExpect {
	var e dialExpect
	t := time.Duration(0)
	di, ti, sock := 0, 0, 0
	isCancelled := func() bool { return c.CancelAt > 0 && c.CancelAt <= t }
	// dial performs one attempt starting at time t (it takes DialLat) and returns
	// its outcome letter after applying the sysctl plan.
	dial := func() byte {
		e.dialTimes = append(e.dialTimes, t)
		t += c.DialLat
		o := at(c.Dials, di)
		di++
		if o == 0 {
			o = 'o'
		}
		if o != 'o' {
			return o
		}
		k := sock
		sock++
		if c.Mode == Advertise {
			if g := at(c.GetF, k); g != 0 && g != 'n' {
				return 'x'
			}
			if s := at(c.SetF, k); s != 0 && s != 'n' && s != 'p' {
				return 'x'
			}
		}
		return 'o'
	}
	cause := byte(0)
	for {
		if cause == 0 {
			o := dial()
			if o != 'o' {
				if !vRecoverable(o) {
					e.endT, e.endNil = t, false
					return e
				}
				cause = o
				continue
			}
		} else {
			ok := false
			for i := 0; i < 50; i++ {
				d := vDelay(i)
				switch {
				case isCancelled() && d == 0:
					// the retry loop's select sees both a done context and an expired
					// timer: either branch may be taken
					e.dontcare = "cancellation raced a zero back-off delay"
					return e
				case isCancelled():
					e.endT, e.endNil = t, true
					return e
				case c.CancelAt > 0 && c.CancelAt <= t+d:
					e.endT, e.endNil = c.CancelAt, true
					return e
				}
				t += d
				o := dial()
				if o == 'o' {
					ok = true
					break
				}
				if !vRecoverable(o) {
					e.dontcare = "unrecoverable dial outcome during a retry loop"
				}
			}
			if !ok {
				e.endT, e.endNil = t, false
				return e
			}
		}
		// task
		k := sock - 1
		restoreFails := c.Mode == Advertise && at(c.RestF, k) == 'x'
		o := at(c.Tasks, ti)
		ti++
		if o == 0 {
			o = 'N'
		}
		if o >= 'a' && o <= 'z' {
			// a task that answers the cancelation with an error of its own: what Dial
			// then returns is not laid down; the clean-up rules (C11) still apply
			e.dontcare = "the task returned an error of its own when it was cancelled"
			return e
		}
		if isCancelled() {
			// the connection was established while the cancelation was already
			// pending: the task sees it at once; the connection is still cleaned up
			e.endT, e.endNil = t, !restoreFails
			return e
		}
		end := t + vTaskLen
		if o == 'C' {
			end = vNever
		}
		if c.CancelAt > 0 && c.CancelAt <= end {
			t = c.CancelAt
			e.endT, e.endNil = t, !restoreFails
			return e
		}
		if o == 'C' {
			e.dontcare = "task waits for a cancelation that never comes"
			return e
		}
		t = end
		if restoreFails {
			e.endT, e.endNil = t, false
			return e
		}
		if o == 'N' {
			e.endT, e.endNil = t, true
			return e
		}
		if !vRecoverable(o) {
			e.endT, e.endNil = t, false
			return e
		}
		cause = o
	}
}

const vNever = time.Duration(1 << 62)

// vRunDial executes the script against the real Dialer.Dial and setAutoconf.
type vGate struct{ *vlib.Run }

// Violation drops verdicts that belong to the other property sharing this driver.
func (g vGate) Violation(id, class, what string, detail any) {
	if strings.HasPrefix(class, "c10:") && g.Prop != "C10" || strings.HasPrefix(class, "c11:") && g.Prop != "C11" {
		return
	}
	g.Run.Violation(id, class, what, detail)
}

func vRunDial(t *testing.T, r0 *vlib.Run, c *dialCase) {
	r := vGate{r0}
	vShape = int(vlib.Hash64(c.ID) % 6)
	var ev []vfake.Event
	var retErr error
	returned := false
	var st *vfake.State
	pm := func() (msg string) {
		defer func() {
			if p := recover(); p != nil {
				msg = fmt.Sprint(p)
			}
		}()
		synctest.Test(t, func(*testing.T) {
			tr := vfake.NewTrace()
			st = vfake.NewState(tr)
			st.SetAutoconfValue("veth0", c.Auto0)
			d := NewDialer("veth0", st, c.Mode, log.New(io.Discard, "", 0))
			di, ti, sock := 0, 0, 0
			// the sysctl plan is applied per opened socket
			var curSock int
			nGet, nSet := 0, 0
			_ = nGet
			st.AutoErr = func(int, string) error { return vFaultErr(at(c.GetF, curSock)) }
			setCalls := map[int]int{}
			st.SetErr = func(_ int, _ string, v bool) error {
				nSet++
				setCalls[curSock]++
				if setCalls[curSock] == 1 {
					if v {
						tr.Add(vfake.Event{Kind: "bad_first_write", Gen: curSock + 1})
					}
					return vFaultErr(at(c.SetF, curSock))
				}
				// the second write of a connection is the restore
				return vFaultErr(at(c.RestF, curSock))
			}
			d.DialFunc = func() (*DialContext, error) {
				dialStart := tr.Now()
				if c.DialLat > 0 {
					time.Sleep(c.DialLat)
				}
				o := at(c.Dials, di)
				di++
				if o == 0 {
					o = 'o'
				}
				if o != 'o' {
					tr.Add(vfake.Event{Kind: "dial", ID: di - 1, Err: string(o), Val: int64(dialStart)})
					return nil, vDialErr(o)
				}
				k := sock
				sock++
				curSock = k
				tr.Add(vfake.Event{Kind: "open", Gen: k + 1})
				var restore func() error
				if c.Mode == Advertise {
					var err error
					restore, err = d.setAutoconf()
					if err != nil {
						tr.Add(vfake.Event{Kind: "close", Gen: k + 1, Msg: "dial failed"})
						tr.Add(vfake.Event{Kind: "dial", ID: di - 1, Err: "x:" + err.Error(), Val: int64(dialStart)})
						return nil, err
					}
				}
				tr.Add(vfake.Event{Kind: "dial", ID: di - 1, Gen: k + 1, Val: int64(dialStart)})
				return vDialContextWithCleanup(func() error {
					curSock = k
					tr.Add(vfake.Event{Kind: "close", Gen: k + 1})
					if restore != nil {
						err := restore()
						if err != nil {
							tr.Add(vfake.Event{Kind: "restore_error", Gen: k + 1, Err: err.Error()})
						}
						return err
					}
					return nil
				}), nil
			}
			ctx, cancel := context.WithCancel(context.Background())
			defer cancel()
			endC := make(chan struct{})
			defer close(endC)
			if c.CancelAt > 0 {
				go func() {
					select {
					case <-time.After(c.CancelAt):
						tr.Add(vfake.Event{Kind: "cancel"})
						cancel()
					case <-endC:
					}
				}()
			}
			doneC := make(chan struct{})
			go func() {
				retErr = d.Dial(ctx, func(ctx context.Context, dctx *DialContext) error {
					o := at(c.Tasks, ti)
					ti++
					if o == 0 {
						o = 'N'
					}
					gen := sock
					tr.Add(vfake.Event{Kind: "fn_enter", Gen: gen, Val: b2i(st.Autoconf("veth0"))})
					var err error
					if o == 'C' {
						<-ctx.Done()
					} else if o >= 'a' && o <= 'z' {
						// the task ends on cancelation, with an error: the context's own,
						// or the failure it ran into while it was being torn down
						<-ctx.Done()
						if o == 'c' {
							err = fmt.Errorf("failed to run: %w", ctx.Err())
						} else {
							err = vTaskErr(o - 'a' + 'A')
						}
					} else {
						select {
						case <-ctx.Done():
						case <-time.After(vTaskLen):
							err = vTaskErr(o)
						}
					}
					e := vfake.Event{Kind: "fn_exit", Gen: gen}
					if err != nil {
						e.Err = err.Error()
					}
					tr.Add(e)
					return err
				})
				e := vfake.Event{Kind: "dial_return", Val: b2i(st.Autoconf("veth0"))}
				if retErr != nil {
					e.Err = retErr.Error()
				}
				tr.Add(e)
				close(doneC)
			}()
			select {
			case <-doneC:
				returned = true
			case <-time.After(400 * time.Second):
			}
			cancel()
			if !returned {
				select {
				case <-doneC:
				case <-time.After(400 * time.Second):
				}
			}
			ev = tr.Events()
		})
		return ""
	}()
	det := func() map[string]any { return map[string]any{"case": c, "trace": vfake.Strings(ev, 150)} }
	for _, e := range ev {
		if e.Kind == "bad_first_write" && r.Prop == "C11" {
			r.Violation(c.ID, "c11:enabled-autoconf", "the first autoconfiguration write of a connection enabled it instead of disabling it", det())
			return
		}
	}
	if pm != "" {
		r.Violation(c.ID, "bubble-panic", "scenario ended with: "+pm, det())
		return
	}
	r.Count("events_observed", len(ev))
	exp := vSimulate(c)

	// ---- C11: cleanup exactly once, in order; autoconf discipline -------------
	opened, closed := map[int]int{}, map[int]int{}
	openGen := 0
	restoreErr := false
	for i, e := range ev {
		switch e.Kind {
		case "open":
			if openGen != 0 {
				r.Violation(c.ID, "c11:open-before-cleanup", fmt.Sprintf("connection %d opened while connection %d was not yet cleaned up", e.Gen, openGen), det())
				return
			}
			opened[e.Gen]++
			openGen = e.Gen
		case "close":
			closed[e.Gen]++
			if closed[e.Gen] > 1 {
				r.Violation(c.ID, "c11:double-cleanup", fmt.Sprintf("connection %d cleaned up twice", e.Gen), det())
				return
			}
			if openGen == e.Gen {
				openGen = 0
			}
		case "restore_error":
			restoreErr = true
		case "fn_enter":
			if c.Mode == Advertise && e.Val != 0 && at(c.SetF, e.Gen-1) != 'p' {
				r.Violation(c.ID, "c11:autoconf-not-disabled", "autoconfiguration was still enabled while the connection was in use", det())
				return
			}
			if c.Mode == Monitor && (e.Val != 0) != c.Auto0 {
				r.Violation(c.ID, "c11:autoconf-touched-in-monitor", "a monitoring dialer changed autoconfiguration", det())
				return
			}
		case "dial_return":
			if openGen != 0 {
				r.Violation(c.ID, "c11:leak-at-return", fmt.Sprintf("Dial returned while connection %d was not cleaned up", openGen), det())
				return
			}
			_ = i
		}
	}
	for g, n := range opened {
		if closed[g] != n && returned {
			r.Violation(c.ID, "c11:not-cleaned-up", fmt.Sprintf("connection %d opened %d times, cleaned up %d times", g, n, closed[g]), det())
			return
		}
	}
	if returned && st != nil {
		// value must be back unless a restore write failed
		anyRestFail := false
		for k := 0; k < len(c.RestF); k++ {
			if c.RestF[k] != 'n' && opened[k+1] > 0 {
				anyRestFail = true
			}
		}
		anySetPerm := false
		_ = anySetPerm
		if got := st.Autoconf("veth0"); got != c.Auto0 && !anyRestFail {
			r.Violation(c.ID, "c11:autoconf-not-restored", fmt.Sprintf("autoconfiguration is %v after Dial returned, it was %v before", got, c.Auto0), det())
			return
		}
		if restoreErr && retErr == nil {
			r.Violation(c.ID, "c11:restore-error-swallowed", "a restore failure other than permission/not-exist was not reported", det())
			return
		}
	}
	r.Count("c11_generations_checked", len(opened))

	// ---- C10: policy ---------------------------------------------------------
	if exp.dontcare != "" {
		r.Count("dontcare", 1)
		return
	}
	if !returned {
		r.Violation(c.ID, "c10:no-return", "Dial had not returned after 400 virtual seconds", det())
		return
	}
	var gotDials []time.Duration
	var endT time.Duration
	for _, e := range ev {
		switch e.Kind {
		case "dial":
			gotDials = append(gotDials, time.Duration(e.Val))
		case "dial_return":
			endT = e.T
		}
	}
	// "open" precedes a failing setAutoconf dial event at the same instant: dial times are what matter.
	if len(gotDials) != len(exp.dialTimes) {
		cls := "c10:attempt-count"
		if len(gotDials) > len(exp.dialTimes) {
			cls = "c10:too-many-attempts"
		}
		r.Violation(c.ID, cls, fmt.Sprintf("%d dial attempts at %v, the policy gives %d at %v", len(gotDials), gotDials, len(exp.dialTimes), exp.dialTimes), det())
		return
	}
	for i := range gotDials {
		if gotDials[i] != exp.dialTimes[i] {
			r.Violation(c.ID, "c10:backoff-timing", fmt.Sprintf("dial attempt %d at %v, the policy gives %v (all: %v vs %v)", i, gotDials[i], exp.dialTimes[i], gotDials, exp.dialTimes), det())
			return
		}
	}
	if (retErr == nil) != exp.endNil {
		cls := "c10:error-swallowed"
		if retErr != nil {
			cls = "c10:spurious-error"
		}
		r.Violation(c.ID, cls, fmt.Sprintf("Dial returned %v, the policy gives nil=%v", retErr, exp.endNil), det())
		return
	}
	if endT != exp.endT {
		r.Violation(c.ID, "c10:return-timing", fmt.Sprintf("Dial returned at %v, the policy gives %v", endT, exp.endT), det())
		return
	}
	if r.WantSample() && len(exp.dialTimes) >= 4 {
		r.Sample(map[string]any{"case": c, "dial_times": fmt.Sprint(gotDials), "returned_error": fmt.Sprint(retErr)})
	}
}

func b2i(b bool) int64 {
	if b {
		return 1
	}
	return 0
}

// TestVerifDial — C10 (policy) and C11 (in-process) over enumerated scripts.
func TestVerifDial(t *testing.T) {
	prop := os.Getenv("VERIF_PROP")
	if prop == "" {
		prop = "C10"
	}
	r := vlib.Start(prop, "policy")
	defer r.Finish()

	run := func(c *dialCase) {
		if !r.Mine(c.ID) {
			return
		}
		r.Begin(c.ID)
		if strings.ContainsAny(c.Dials, "lspx") || strings.ContainsAny(c.Tasks, "LSPTXclspxt") || strings.ContainsAny(c.GetF+c.SetF+c.RestF, "pex") {
			r.Nontrivial(c.ID)
		}
		vRunDial(t, r, c)
	}

	depth := r.Pick(4, 6)
	// Enumerate scripts: a sequence of rounds "dial outcomes until ok or a terminal
	// error, then one task outcome".  Total length (dials+tasks) <= depth.
	var scripts [][2]string
	var rec func(d, tk string, needTask bool)
	rec = func(d, tk string, needTask bool) {
		if len(d)+len(tk) > 0 {
			scripts = append(scripts, [2]string{d, tk})
		}
		if len(d)+len(tk) >= depth {
			return
		}
		if needTask {
			for i := 0; i < len(vTaskAlpha); i++ {
				o := vTaskAlpha[i]
				rec(d, tk+string(o), false)
			}
			return
		}
		for i := 0; i < len(vDialAlpha); i++ {
			o := vDialAlpha[i]
			rec(d+string(o), tk, o == 'o')
		}
	}
	rec("", "", false)
	r.Note("enumerated_scripts", fmt.Sprint(len(scripts)))
	cancels := []time.Duration{0, 100 * time.Millisecond, 1100 * time.Millisecond, 1600 * time.Millisecond, 3300 * time.Millisecond}
	for _, s := range scripts {
		for ci, ca := range cancels {
			if prop == "C11" && ci > 2 {
				continue
			}
			for _, mode := range []DialerMode{Advertise, Monitor} {
				if mode == Monitor && (ci%2 == 1 || prop == "C10" && len(s[0]) > 3) {
					continue
				}
				c := &dialCase{ID: fmt.Sprintf("enum/%s/%s/c%d/m%d", s[0], s[1], ci, mode), Dials: s[0], Tasks: s[1], CancelAt: ca, Mode: mode, Auto0: (len(s[0])+ci)%2 == 0}
				run(c)
			}
		}
	}
	// The 50-attempt limit: 49 failures then success, 50 failures, 51.
	for _, n := range []int{48, 49, 50, 51} {
		for _, first := range []string{"l", "s", "oL"} {
			d, tk := first, ""
			if first == "oL" {
				d, tk = "o", "L"
			}
			c := &dialCase{ID: fmt.Sprintf("limit/%s/%d", first, n), Dials: d + strings.Repeat("l", n), Tasks: tk, Mode: Advertise, Auto0: true}
			run(c)
		}
	}
	// slow dials: the cancelation lands while a (re-)dial is in flight
	for _, sc := range [][2]string{{"o", "L"}, {"o", "S"}, {"lo", "N"}, {"o", "LL"}, {"olo", "L"}, {"oo", "LN"}} {
		for ms := 50; ms <= 3600; ms += 50 {
			for _, mode := range []DialerMode{Advertise, Monitor} {
				c := &dialCase{ID: fmt.Sprintf("slowdial/%s/%s/%d/m%d", sc[0], sc[1], ms, mode), Dials: sc[0], Tasks: sc[1], CancelAt: time.Duration(ms)*time.Millisecond + time.Microsecond,
					Mode: mode, Auto0: ms%100 == 0, DialLat: 300 * time.Millisecond}
				run(c)
			}
		}
	}
	// sysctl fault plans (C11): get/set/restore × {n p e x} on the first and second socket
	faults := "npex"
	for _, tasks := range []string{"N", "L", "S", "X", "C", "LL"} {
		for gi := 0; gi < 4; gi++ {
			for si := 0; si < 4; si++ {
				for ri := 0; ri < 4; ri++ {
					for pos := 0; pos < 2; pos++ {
						for _, a0 := range []bool{false, true} {
							pad := strings.Repeat("n", pos)
							c := &dialCase{ID: fmt.Sprintf("sysctl/%s/%c%c%c/%d/%v", tasks, faults[gi], faults[si], faults[ri], pos, a0), Tasks: tasks, Mode: Advertise, Auto0: a0,
								GetF: pad + string(faults[gi]), SetF: pad + string(faults[si]), RestF: pad + string(faults[ri])}
							if tasks == "C" {
								c.CancelAt = 1500 * time.Millisecond
							}
							run(c)
							// the same plan when the very first dial attempts fail before
							// the sysctl is reached (link not ready, a system call error):
							// the faulted connection is then opened from the retry loop
							for _, pre := range []string{"l", "sl"} {
								c2 := *c
								c2.ID, c2.Dials = c.ID+"/after-"+pre, pre
								if tasks == "C" {
									c2.CancelAt = 2500 * time.Millisecond
								}
								run(&c2)
							}
						}
					}
				}
			}
		}
	}
	// tasks that answer the cancelation with an error (a transmit failure or link
	// change racing the shutdown, or the context's own error): whatever Dial then
	// returns, the connection in use is cleaned up exactly once and autoconf restored
	for _, pre := range [][2]string{{"", ""}, {"o", "L"}, {"lo", "S"}, {"oo", "LL"}} {
		for _, last := range "clspxt" {
			for _, ca := range []time.Duration{300 * time.Millisecond, 1500 * time.Millisecond, 4200 * time.Millisecond} {
				for _, mode := range []DialerMode{Advertise, Monitor} {
					for _, a0 := range []bool{false, true} {
						nT := time.Duration(len(pre[1])) * vTaskLen
						c := &dialCase{ID: fmt.Sprintf("errorcancel/%s/%s%c/%v/m%d/%v", pre[0], pre[1], last, ca, mode, a0), Dials: pre[0], Tasks: pre[1] + string(last),
							CancelAt: nT + 3*time.Second + ca, Mode: mode, Auto0: a0}
						run(c)
					}
				}
			}
		}
	}
	// random longer scripts
	rr := r.Rand("dial", prop)
	n := r.Pick(1500, 100000)
	for i := 0; i < n; i++ {
		var d, tk strings.Builder
		for k, m := 0, 1+rr.Intn(60); k < m; k++ {
			if rr.Intn(3) == 0 {
				d.WriteByte("olslls"[rr.Intn(6)])
			} else {
				d.WriteByte('o')
			}
			if rr.Intn(40) == 0 {
				d.WriteByte("px"[rr.Intn(2)])
			}
		}
		for k, m := 0, rr.Intn(8); k < m; k++ {
			tk.WriteByte("LSLSLSNPTX"[rr.Intn(10)])
		}
		c := &dialCase{ID: fmt.Sprintf("rand/%d", i), Dials: d.String(), Tasks: tk.String(), Mode: []DialerMode{Advertise, Monitor}[rr.Intn(2)], Auto0: rr.Intn(2) == 0}
		if rr.Intn(3) == 0 {
			c.CancelAt = time.Duration(rr.Int63n(int64(20*time.Second))) + time.Millisecond
		}
		fb := func() string {
			var b strings.Builder
			for k := 0; k < 6; k++ {
				if rr.Intn(5) == 0 {
					b.WriteByte("pex"[rr.Intn(3)])
				} else {
					b.WriteByte('n')
				}
			}
			return b.String()
		}
		if rr.Intn(2) == 0 {
			c.GetF, c.SetF, c.RestF = fb(), fb(), fb()
		}
		run(c)
	}
}

// vDialContextWithCleanup builds a DialContext whose clean-up closure is fn.
// The closure lives in an unexported field; it is located by its type
// (func() error) rather than by name, so that renaming it does not stop the
// driver from building.
func vDialContextWithCleanup(fn func() error) *DialContext {
	dctx := &DialContext{}
	v := reflect.ValueOf(dctx).Elem()
	want := reflect.TypeOf(fn)
	n := 0
	for i := 0; i < v.NumField(); i++ {
		f := v.Field(i)
		if f.Type() == want {
			reflect.NewAt(f.Type(), unsafe.Pointer(f.UnsafeAddr())).Elem().Set(reflect.ValueOf(fn))
			n++
		}
	}
	if n != 1 {
		panic(fmt.Sprintf("verif: DialContext has %d func() error fields, the driver expects exactly one clean-up closure", n))
	}
	return dctx
}
