//go:build verif

package config_test

import (
	"fmt"
	"math/rand"
	"net/netip"
	"testing"
	"time"

	"github.com/mdlayher/ndp"
	"verif.local/model"
	"verif.local/vlib"
)

// vFloatBand is set by vWire when a value fell into the float-rounding band.
var vFloatBand bool

const (
	vSec = int64(time.Second)
	vMs  = int64(time.Millisecond)
)

// vWire checks every duration of an RA against its wire field and returns the
// RA as it must look after a round trip ("" = fine).
func vWire(ra model.RA) (model.RA, string, bool) {
	near := false
	chk := func(what string, v, unit, max int64) (int64, string) {
		// The codec converts through float64 seconds: above 2^31 s a value
		// less than 1µs below a whole unit may round up instead of truncating.
		// That band is a don't-care region of this monitor.
		if v >= (1<<31)*vSec && v%unit != 0 && unit-v%unit <= 1000 {
			vFloatBand = true
		}
		if v < 0 {
			return 0, fmt.Sprintf("%s is negative (%d ns)", what, v)
		}
		if v/unit > max {
			return 0, fmt.Sprintf("%s = %d %s exceeds the field maximum %d", what, v/unit, time.Duration(unit), max)
		}
		if v/unit >= max-1 || (v > 0 && v < 2*unit) {
			near = true
		}
		return v / unit * unit, ""
	}
	out := ra
	out.Options = append([]model.Opt(nil), ra.Options...)
	var msg string
	if out.RouterLifetime, msg = chk("router lifetime", ra.RouterLifetime, vSec, 65535); msg != "" {
		return out, msg, near
	}
	if out.Reachable, msg = chk("reachable time", ra.Reachable, vMs, 0xffffffff); msg != "" {
		return out, msg, near
	}
	if out.Retrans, msg = chk("retransmit timer", ra.Retrans, vMs, 0xffffffff); msg != "" {
		return out, msg, near
	}
	for i := range out.Options {
		o := &out.Options[i]
		switch o.Kind {
		case "prefix":
			if o.Valid, msg = chk("prefix valid lifetime", o.Valid, vSec, 0xffffffff); msg != "" {
				return out, msg, near
			}
			if o.Preferred, msg = chk("prefix preferred lifetime", o.Preferred, vSec, 0xffffffff); msg != "" {
				return out, msg, near
			}
		case "route", "rdnss", "dnssl":
			if o.Lifetime, msg = chk(o.Kind+" lifetime", o.Lifetime, vSec, 0xffffffff); msg != "" {
				return out, msg, near
			}
			if o.Kind == "route" {
				// mdlayher/ndp's *decoder* keeps only bits/8 whole bytes of a route
				// prefix (the encoder writes all of them; vRawRoutes checks the bytes
				// on the wire).  Expect what that decoder returns.
				if p, err := netip.ParsePrefix(o.Prefix); err == nil && p.Bits()%8 != 0 {
					if q, err := p.Addr().Prefix(p.Bits() / 8 * 8); err == nil {
						o.Prefix = netip.PrefixFrom(q.Addr(), p.Bits()).String()
					}
				}
			}
		case "pref64":
			if o.Lifetime, msg = chk("pref64 lifetime", o.Lifetime, 8*vSec, 8191); msg != "" {
				return out, msg, near
			}
			p, err := netip.ParsePrefix(o.Prefix)
			if err != nil || !p.Addr().Is6() || p.Addr().Is4In6() {
				return out, fmt.Sprintf("pref64 prefix %q is not IPv6", o.Prefix), true
			}
			switch p.Bits() {
			case 96, 64, 56, 48, 40, 32:
			default:
				return out, fmt.Sprintf("pref64 prefix %q is not NAT64-sized", o.Prefix), true
			}
			if p.String() != "64:ff9b::/96" {
				near = true
			}
		}
	}
	return out, "", near
}

// vHazardDoc draws a mostly valid document and plants hazardous durations and
// pref64 prefixes in it.
func vHazardDoc(r *rand.Rand) model.Doc {
	g := &model.Gen{R: r, ValidOnly: true}
	d := g.Doc()
	hv := []*model.Dur{model.D(-1), model.D(-vSec), model.D(-3600 * vSec), model.D(1), model.D(999999999), model.D(vMs), model.D(1500 * vMs),
		model.D(model.Infinity - vSec), model.D(model.Infinity), model.DInf(), model.D(model.Infinity + 1), model.D(model.Infinity + vSec),
		model.D(2 * model.Infinity), model.DS(2562047*3600*vSec, 1), model.D(65535 * vSec), model.D(65536 * vSec), model.DEmpty(), model.D(0)}
	pick := func() *model.Dur { return hv[r.Intn(len(hv))] }
	for i := range d.Ifaces {
		f := &d.Ifaces[i]
		if f.Monitor != nil && *f.Monitor {
			continue
		}
		if len(f.PREF64) == 0 && r.Intn(3) == 0 {
			f.PREF64 = append(f.PREF64, model.PREF64St{})
		}
		for k := 0; k < 1+r.Intn(2); k++ {
			switch r.Intn(9) {
			case 0:
				f.ReachableTime = pick()
			case 1:
				f.RetransmitTimer = pick()
			case 2:
				f.DefaultLifetime = pick()
			case 3:
				if len(f.Prefixes) > 0 {
					j := r.Intn(len(f.Prefixes))
					f.Prefixes[j].Valid = pick()
					if r.Intn(2) == 0 {
						f.Prefixes[j].Preferred = pick()
					}
				}
			case 4:
				if len(f.Prefixes) > 0 {
					f.Prefixes[r.Intn(len(f.Prefixes))].Preferred = pick()
				}
			case 5:
				if len(f.Routes) > 0 {
					f.Routes[r.Intn(len(f.Routes))].Lifetime = pick()
				}
			case 6:
				if len(f.RDNSS) > 0 {
					f.RDNSS[r.Intn(len(f.RDNSS))].Lifetime = pick()
				}
			case 7:
				if len(f.DNSSL) > 0 {
					f.DNSSL[r.Intn(len(f.DNSSL))].Lifetime = pick()
				}
			case 8:
				if len(f.PREF64) > 0 {
					pool := []string{"", "64:ff9b::/96", "64:ff9b:1::/48", "2001:db8:64::/64", "2001:db8:64::/56", "2001:db8::/40", "2001:db8::/32",
						"2001:db8::/33", "64:ff9b::/95", "64:ff9b::/97", "64:ff9b::/128", "::/0", "::/96", "192.0.2.0/24", "10.0.0.0/32",
						"::ffff:0.0.0.0/96", "64:ff9b::1/96", "2001:db8:64::1/64", "2001:db8:ffff:ffff::/64", "2001:db8:1:2:3::/64", "1.2.3.4/32"}
					f.PREF64[r.Intn(len(f.PREF64))].Prefix = model.MkCIDR(pool[r.Intn(len(pool))])
				}
			}
		}
	}
	return d
}

// TestVerifC03 — whatever the parser accepts must encode and keep its meaning.
func TestVerifC03(t *testing.T) {
	r := vlib.Start("C03", "wire")
	defer r.Finish()

	run := func(id string, d model.Doc) {
		if !r.Mine(id) {
			return
		}
		text := d.TOML()
		r.Begin(id)
		cfg, err, pan := vParse(text)
		if pan != nil || err != nil {
			r.Count("rejected_by_parser", 1)
			return
		}
		r.Count("accepted_by_parser", 1)
		sr := vlib.NewRand(r.Seed, "c03sys", id)
		for i := range cfg.Interfaces {
			ifi := &cfg.Interfaces[i]
			if ifi.Monitor {
				continue
			}
			for s := 0; s < 2; s++ {
				sys := vSys(sr)
				if sys.MAC == nil && s == 0 {
					sys.MAC = []byte{2, 0, 0, 0, 0, 1}
				}
				// Clock readings before the daemon's start are C16's business; with a
				// deprecated lifetime within an hour of 2^32 s they would exceed the
				// field, and the statements do not say which of C03/C16 gives way.
				now := vEpoch.Add(vClockOffsets[1+sr.Intn(len(vClockOffsets)-1)])
				vInject(ifi, sys, func() time.Time { return now })
				fwd := sr.Intn(4) != 0
				ra, _, gerr := ifi.RouterAdvertisement(fwd)
				if gerr != nil {
					r.Count("generation_failed_for_state", 1)
					continue
				}
				r.Count("ras_checked", 1)
				orig := model.FromNDP(ra)
				det := map[string]any{"toml": text, "interface": ifi.Name, "ra": orig}
				vFloatBand = false
				want, msg, near := vWire(orig)
				if vFloatBand {
					r.Count("dontcare_float_band", 1)
					continue
				}
				if near {
					r.Nontrivial(text + "|" + ifi.Name)
				}
				if r.WantSample() && near {
					r.Sample(map[string]any{"id": id, "toml": text, "ra": orig})
				}
				if msg != "" {
					r.Violation(id, "unencodable:"+vWireClass(msg), "accepted configuration puts an out-of-range value into an RA: "+msg, det)
					continue
				}
				b, merr := ndp.MarshalMessage(ra)
				if merr != nil {
					r.Violation(id, "marshal-error", "accepted configuration produced an RA that does not encode: "+merr.Error(), det)
					continue
				}
				m2, perr := ndp.ParseMessage(b)
				if perr != nil {
					r.Violation(id, "reparse-error", "encoded RA does not decode: "+perr.Error(), det)
					continue
				}
				ra2, ok := m2.(*ndp.RouterAdvertisement)
				if !ok {
					r.Violation(id, "reparse-type", fmt.Sprintf("encoded RA decodes as %T", m2), det)
					continue
				}
				if msg := vRawRoutes(b, orig); msg != "" {
					r.Violation(id, "route-bytes", "route information option bytes differ from the configured route: "+msg, det)
					continue
				}
				got := model.FromNDP(ra2)
				if dd := model.DiffRA(want, got); dd != "" {
					det["decoded"] = got
					r.Violation(id, "meaning-changed", "RA changes meaning on the wire: "+dd, det)
				}
			}
		}
	}

	for _, c := range model.BoundaryDocs() {
		run(c.ID, c.Doc)
	}
	for _, c := range model.InteractionDocs() {
		run(c.ID, c.Doc)
	}
	hr := r.Rand("c03", "hazard")
	n := r.Pick(30000, 3000000)
	for i := 0; i < n; i++ {
		run(fmt.Sprintf("hazard/%d", i), vHazardDoc(hr))
	}
}

func vWireClass(msg string) string {
	for _, k := range []string{"negative", "exceeds", "not IPv6", "not NAT64"} {
		for i := 0; i+len(k) <= len(msg); i++ {
			if msg[i:i+len(k)] == k {
				return k
			}
		}
	}
	return "other"
}

// vRawRoutes decodes the route information options (type 24) straight from the
// wire bytes and compares prefix, length and lifetime with the RA.
func vRawRoutes(b []byte, ra model.RA) string {
	var want []model.Opt
	for _, o := range ra.Options {
		if o.Kind == "route" {
			want = append(want, o)
		}
	}
	// ICMPv6 header (4) + RA fixed part (12).
	i, k := 16, 0
	for i+2 <= len(b) {
		typ, l := b[i], int(b[i+1])*8
		if l == 0 || i+l > len(b) {
			return "malformed option list"
		}
		if typ == 24 {
			if k >= len(want) {
				return "more route options on the wire than in the RA"
			}
			var a [16]byte
			copy(a[:], b[i+8:i+l])
			got := netip.PrefixFrom(netip.AddrFrom16(a), int(b[i+2])).String()
			if got != want[k].Prefix {
				return fmt.Sprintf("route %d: wire carries %s, RA says %s", k, got, want[k].Prefix)
			}
			lt := int64(uint32(b[i+4])<<24|uint32(b[i+5])<<16|uint32(b[i+6])<<8|uint32(b[i+7])) * vSec
			if lt != want[k].Lifetime/vSec*vSec {
				return fmt.Sprintf("route %d: wire lifetime %d, RA says %d", k, lt, want[k].Lifetime)
			}
			k++
		}
		i += l
	}
	if k != len(want) {
		return fmt.Sprintf("%d route options on the wire, %d in the RA", k, len(want))
	}
	return ""
}
