//go:build verif

package config_test

import (
	"fmt"
	"testing"

	"verif.local/model"
	"verif.local/vlib"
)

// TestVerifC02 — acceptance and defaults of config.Parse against the
// executable specification in verif.local/model.
func TestVerifC02(t *testing.T) {
	r := vlib.Start("C02", "parse")
	defer r.Finish()

	check := func(c model.Case) {
		if !r.Mine(c.ID) {
			return
		}
		text := c.Doc.TOML()
		want, exp, reasons := model.Expect(&c.Doc)
		r.Begin(c.ID)
		cfg, err, pan := vParse(text)
		r.Count("verdict_"+want.String(), 1)
		if c.Nontrivial {
			r.Nontrivial(text)
		}
		if r.WantSample() && c.Nontrivial {
			r.Sample(map[string]any{"id": c.ID, "toml": text, "oracle": want.String(), "oracle_reasons": reasons, "parser_err": fmt.Sprint(err)})
		}
		if pan != nil {
			r.Violation(c.ID, "parse-panic", fmt.Sprintf("config.Parse panicked: %v", pan), map[string]any{"toml": text})
			return
		}
		switch want {
		case model.Yes:
			if err != nil {
				r.Violation(c.ID, "rejects-valid", "a document satisfying every documented constraint was rejected: "+err.Error(), map[string]any{"toml": text})
				return
			}
			got, cerr := vToExp(cfg)
			if cerr != nil {
				r.Violation(c.ID, "bad-output", cerr.Error(), map[string]any{"toml": text})
				return
			}
			if d := vDiffConfig(exp, got); d != "" {
				r.Violation(c.ID, "wrong-default-or-value", "accepted configuration differs from the documented values: "+d, map[string]any{"toml": text})
			}
		case model.No:
			if err == nil {
				r.Violation(c.ID, "accepts-invalid:"+classOf(reasons), fmt.Sprintf("a document violating a documented constraint was accepted (%v)", reasons), map[string]any{"toml": text, "reasons": reasons})
			}
		default:
			r.Count("dontcare", 1)
		}
	}

	for _, c := range model.BoundaryDocs() {
		check(c)
	}
	for _, c := range model.InteractionDocs() {
		check(c)
	}
	n := r.Pick(40000, 3000000)
	g := &model.Gen{R: r.Rand("c02", "random"), Hazard: 0.12}
	for i := 0; i < n; i++ {
		d := g.Doc()
		hz := false
		tri, _, _ := model.Expect(&d)
		if tri != model.Yes {
			hz = true
		}
		check(model.Case{ID: fmt.Sprintf("rand/%d", i), Doc: d, Nontrivial: hz})
	}

	// Arbitrary bytes and mutated valid documents: parsing never panics.
	m := r.Pick(5000, 1500000)
	fr := r.Rand("c02", "fuzz")
	gv := &model.Gen{R: r.Rand("c02", "fuzzbase"), Hazard: 0.05}
	for i := 0; i < m; i++ {
		var text string
		if i%4 == 0 {
			b := make([]byte, fr.Intn(200))
			for k := range b {
				b[k] = byte(fr.Intn(256))
			}
			text = string(b)
		} else {
			d := gv.Doc()
			text = d.TOML()
			for k, nm := 0, 1+fr.Intn(3); k < nm; k++ {
				text = model.Mutate(fr, text)
			}
		}
		id := fmt.Sprintf("fuzz/%d", i)
		if !r.Mine(id) {
			continue
		}
		r.Begin(id)
		cfg, err, pan := vParse(text)
		r.Count("fuzz_inputs", 1)
		if pan != nil {
			r.Violation(id, "parse-panic", fmt.Sprintf("config.Parse panicked: %v", pan), map[string]any{"input": text})
			continue
		}
		if err == nil {
			r.Count("fuzz_accepted", 1)
			// Whatever is accepted must satisfy the structural promises.
			seen := map[string]bool{}
			if len(cfg.Interfaces) == 0 {
				r.Violation(id, "accepts-invalid:no-interfaces", "accepted a document with no interfaces", map[string]any{"input": text})
			}
			for _, ifi := range cfg.Interfaces {
				if seen[ifi.Name] {
					r.Violation(id, "accepts-invalid:repeated", "accepted a document with a repeated interface name", map[string]any{"input": text})
				}
				seen[ifi.Name] = true
				if ifi.Monitor && ifi.Advertise {
					r.Violation(id, "accepts-invalid:monitor-and-advertise", "accepted monitor and advertise together", map[string]any{"input": text})
				}
			}
		}
	}
}

func classOf(reasons []string) string {
	if len(reasons) == 0 {
		return "unknown"
	}
	s := reasons[0]
	// Drop positions so that the class is stable across documents.
	out := make([]rune, 0, len(s))
	for _, c := range s {
		if c >= '0' && c <= '9' {
			continue
		}
		out = append(out, c)
	}
	if len(out) > 60 {
		out = out[:60]
	}
	return string(out)
}
