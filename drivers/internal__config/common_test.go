//go:build verif

package config_test

import (
	"errors"
	"fmt"
	"net"
	"net/netip"
	"reflect"
	"sort"
	"strings"
	"time"

	"github.com/mdlayher/corerad/internal/config"
	"github.com/mdlayher/corerad/internal/plugin"
	"github.com/mdlayher/corerad/internal/system"
	"github.com/mdlayher/ndp"
	"verif.local/model"
)

var vEpoch = time.Date(2024, 5, 6, 7, 8, 9, 0, time.UTC)

// vParse calls the real parser with panic capture.
func vParse(text string) (cfg *config.Config, err error, panicked any) {
	defer func() {
		if p := recover(); p != nil {
			panicked = p
		}
	}()
	cfg, err = config.Parse(strings.NewReader(text), vEpoch)
	return cfg, err, nil
}

// vToExp converts the parser's output into the oracle's vocabulary.
func vToExp(cfg *config.Config) (*model.ExpConfig, error) {
	out := &model.ExpConfig{Debug: model.ExpDebug{Address: cfg.Debug.Address, Prometheus: cfg.Debug.Prometheus, PProf: cfg.Debug.PProf}}
	for _, ifi := range cfg.Interfaces {
		e := model.ExpIface{
			Name: ifi.Name, Monitor: ifi.Monitor, Advertise: ifi.Advertise, Verbose: ifi.Verbose,
			Min: int64(ifi.MinInterval), Max: int64(ifi.MaxInterval), Managed: ifi.Managed, Other: ifi.OtherConfig,
			Reachable: int64(ifi.ReachableTime), Retrans: int64(ifi.RetransmitTimer), HopLimit: int(ifi.HopLimit),
			DefaultLifetime: int64(ifi.DefaultLifetime), UnicastOnly: ifi.UnicastOnly, Preference: model.PrefName(ifi.Preference),
		}
		for _, p := range ifi.Plugins {
			switch p := p.(type) {
			case *plugin.Prefix:
				if !p.Epoch.Equal(vEpoch) {
					return nil, fmt.Errorf("prefix epoch %v, want %v", p.Epoch, vEpoch)
				}
				e.Plugins = append(e.Plugins, model.ExpPlugin{Kind: "prefix", Auto: p.Auto, Addr: p.Prefix.Addr().As16(), Bits: p.Prefix.Bits(),
					OnLink: p.OnLink, Autonomous: p.Autonomous, Valid: int64(p.ValidLifetime), Preferred: int64(p.PreferredLifetime), Deprecated: p.Deprecated})
			case *plugin.Route:
				if !p.Epoch.Equal(vEpoch) {
					return nil, fmt.Errorf("route epoch %v, want %v", p.Epoch, vEpoch)
				}
				e.Plugins = append(e.Plugins, model.ExpPlugin{Kind: "route", Auto: p.Auto, Addr: p.Prefix.Addr().As16(), Bits: p.Prefix.Bits(),
					Valid: int64(p.Lifetime), Deprecated: p.Deprecated, RoutePref: model.PrefName(p.Preference)})
			case *plugin.RDNSS:
				ep := model.ExpPlugin{Kind: "rdnss", Auto: p.Auto, Lifetime: int64(p.Lifetime)}
				for _, s := range p.Servers {
					ep.Servers = append(ep.Servers, s.As16())
				}
				e.Plugins = append(e.Plugins, ep)
			case *plugin.DNSSL:
				e.Plugins = append(e.Plugins, model.ExpPlugin{Kind: "dnssl", Lifetime: int64(p.Lifetime), Names: p.DomainNames})
			case *plugin.MTU:
				e.Plugins = append(e.Plugins, model.ExpPlugin{Kind: "mtu", MTU: int(*p)})
			case *plugin.LLA:
				e.Plugins = append(e.Plugins, model.ExpPlugin{Kind: "lla"})
			case *plugin.CaptivePortal:
				e.Plugins = append(e.Plugins, model.ExpPlugin{Kind: "captive-portal", URI: p.Portal.URI})
			case *plugin.PREF64:
				e.Plugins = append(e.Plugins, model.ExpPlugin{Kind: "pref64", Addr: p.Inner.Prefix.Addr().As16(), Bits: p.Inner.Prefix.Bits(), Lifetime: int64(p.Inner.Lifetime)})
			default:
				return nil, fmt.Errorf("unknown plugin type %T", p)
			}
		}
		out.Ifaces = append(out.Ifaces, e)
	}
	return out, nil
}

// vDiffConfig returns "" when got matches want.
func vDiffConfig(want, got *model.ExpConfig) string {
	if want.Debug != got.Debug {
		return fmt.Sprintf("debug: want %+v got %+v", want.Debug, got.Debug)
	}
	if len(want.Ifaces) != len(got.Ifaces) {
		return fmt.Sprintf("interface count: want %d got %d", len(want.Ifaces), len(got.Ifaces))
	}
	for i := range want.Ifaces {
		w, g := want.Ifaces[i], got.Ifaces[i]
		if w.MinDontCare {
			g.Min = w.Min
		}
		w.MinDontCare = false
		wp, gp := w.Plugins, g.Plugins
		w.Plugins, g.Plugins = nil, nil
		if !reflect.DeepEqual(w, g) {
			return fmt.Sprintf("interface %d: want %+v got %+v", i, w, g)
		}
		if len(wp) != len(gp) {
			return fmt.Sprintf("interface %d plugin count: want %d got %d", i, len(wp), len(gp))
		}
		for j := range wp {
			a, b := wp[j], gp[j]
			alt := a.LifetimeAlt
			a.LifetimeAlt = 0
			if len(a.Servers) == 0 && len(b.Servers) == 0 {
				a.Servers, b.Servers = nil, nil
			}
			if len(a.Names) == 0 && len(b.Names) == 0 {
				a.Names, b.Names = nil, nil
			}
			if reflect.DeepEqual(a, b) {
				continue
			}
			if alt != 0 {
				a.Lifetime = alt
				if reflect.DeepEqual(a, b) {
					continue
				}
			}
			return fmt.Sprintf("interface %d plugin %d: want %+v got %+v", i, j, wp[j], gp[j])
		}
	}
	return ""
}

var errInjected = errors.New("verif: injected system error")

// vInject installs a system state into the plugins of a parsed interface
// through their exported test fields, the way the repository's own tests do.
func vInject(ifi *config.Interface, sys *model.Sys, now func() time.Time) {
	addrs := func() ([]system.IP, error) {
		if sys.AddrsErr {
			return nil, errInjected
		}
		out := make([]system.IP, 0, len(sys.Addrs))
		for _, a := range sys.Addrs {
			out = append(out, system.IP{Address: a.Addr, Deprecated: a.Deprecated, ManageTemporaryAddresses: a.ManageTemp,
				StablePrivacy: a.StablePrivacy, Temporary: a.Temporary, Tentative: a.Tentative, ValidForever: a.ValidForever})
		}
		return out, nil
	}
	routes := func() ([]system.Route, error) {
		if sys.RoutesErr {
			return nil, errInjected
		}
		out := make([]system.Route, 0, len(sys.Routes))
		for i, r := range sys.Routes {
			out = append(out, system.Route{Prefix: r, Index: 1 + i%2*6, Preference: []ndp.Preference{ndp.Medium, ndp.Low, ndp.High}[i%3]})
		}
		return out, nil
	}
	// Every plugin is prepared with the interface as the daemon does on each
	// (re)initialisation - whatever Prepare records about the interface is then
	// in place - and only then are the system sources replaced by the scripted ones.
	pni := &net.Interface{Index: 1, Name: ifi.Name}
	if sys.MAC != nil {
		pni.HardwareAddr = net.HardwareAddr(append([]byte(nil), sys.MAC...))
	}
	for _, p := range ifi.Plugins {
		if err := p.Prepare(pni); err != nil {
			panic("verif: " + p.Name() + ".Prepare failed: " + err.Error())
		}
	}
	for _, p := range ifi.Plugins {
		switch p := p.(type) {
		case *plugin.Prefix:
			p.Addrs, p.TimeNow = addrs, now
		case *plugin.Route:
			p.Routes, p.TimeNow = routes, now
		case *plugin.RDNSS:
			p.Addrs = addrs
		case *plugin.LLA:
			// The hardware address reaches the plugin the way the daemon supplies
			// it: Prepare with the interface as it is now, again on every
			// (re)initialisation - with another address, or none, than before.
			ni := &net.Interface{Index: 1, Name: ifi.Name}
			if sys.MAC != nil {
				ni.HardwareAddr = net.HardwareAddr(append([]byte(nil), sys.MAC...))
			}
			if err := p.Prepare(ni); err != nil {
				panic("verif: LLA.Prepare failed: " + err.Error())
			}
		}
	}
}

// vDump renders everything observable about an interface configuration
// (functions excluded) so that mutation by RA generation can be detected.
func vDump(ifi *config.Interface) string {
	var b strings.Builder
	c := *ifi
	ps := c.Plugins
	c.Plugins = nil
	fmt.Fprintf(&b, "%+v\n", c)
	for _, p := range ps {
		switch p := p.(type) {
		case *plugin.Prefix:
			fmt.Fprintf(&b, "prefix %v %v %v %v %v %v %v %v\n", p.Auto, p.Prefix, p.OnLink, p.Autonomous, p.ValidLifetime, p.PreferredLifetime, p.Deprecated, p.Epoch.UnixNano())
		case *plugin.Route:
			fmt.Fprintf(&b, "route %v %v %v %v %v %v\n", p.Auto, p.Prefix, p.Preference, p.Lifetime, p.Deprecated, p.Epoch.UnixNano())
		case *plugin.RDNSS:
			fmt.Fprintf(&b, "rdnss %v %v %v cap=%d\n", p.Auto, p.Lifetime, p.Servers, cap(p.Servers))
		case *plugin.DNSSL:
			fmt.Fprintf(&b, "dnssl %v %q\n", p.Lifetime, p.DomainNames)
		case *plugin.MTU:
			fmt.Fprintf(&b, "mtu %d\n", int(*p))
		case *plugin.LLA:
			fmt.Fprintf(&b, "lla %v\n", p.Addr)
		case *plugin.CaptivePortal:
			fmt.Fprintf(&b, "cp %q\n", p.Portal.URI)
		case *plugin.PREF64:
			fmt.Fprintf(&b, "pref64 %v %v\n", p.Inner.Prefix, p.Inner.Lifetime)
		default:
			fmt.Fprintf(&b, "unknown %T\n", p)
		}
	}
	return b.String()
}

// System-state pools shared by C01/C03.
var vAddrPool = []model.SysIP{
	{Addr: netip.MustParsePrefix("2001:db8::1/64")},
	{Addr: netip.MustParsePrefix("2001:db8::2/64"), ValidForever: true},
	{Addr: netip.MustParsePrefix("2001:db8:1::1/64"), Temporary: true},
	{Addr: netip.MustParsePrefix("2001:db8:2::1/64"), Tentative: true},
	{Addr: netip.MustParsePrefix("2001:db8:3::1/64"), Deprecated: true},
	{Addr: netip.MustParsePrefix("fd00::1/64"), ManageTemp: true},
	{Addr: netip.MustParsePrefix("fd00:0:0:1::1/64")},
	{Addr: netip.MustParsePrefix("fd00:2::1/48")},
	{Addr: netip.MustParsePrefix("fe80::1/64"), ValidForever: true},
	{Addr: netip.MustParsePrefix("fe80::2ff:fe00:1/64")},
	{Addr: netip.MustParsePrefix("2001:db8:4::2ff:fe00:1/64")},
	{Addr: netip.MustParsePrefix("2001:db8:5::1/128")},
	{Addr: netip.MustParsePrefix("192.0.2.1/24")},
	{Addr: netip.MustParsePrefix("2001:db8:6::1/64"), StablePrivacy: true},
}

var vRoutePool = []netip.Prefix{
	netip.MustParsePrefix("2001:db8::/48"), netip.MustParsePrefix("2001:db8::/64"), netip.MustParsePrefix("2001:db8:0:1::/64"),
	netip.MustParsePrefix("2001:db8:1::/64"), netip.MustParsePrefix("fd00::/8"), netip.MustParsePrefix("fd00:1::/32"),
	netip.MustParsePrefix("::1/128"), netip.MustParsePrefix("2001:db8::/128"), netip.MustParsePrefix("::/0"),
	netip.MustParsePrefix("127.0.0.0/8"), netip.MustParsePrefix("2001:db8:ffff::/48"),
}

func vSortStrings(s []string) []string { sort.Strings(s); return s }
