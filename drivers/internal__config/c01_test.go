//go:build verif

package config_test

import (
	"bytes"
	"fmt"
	"math/rand"
	"testing"
	"time"

	"github.com/mdlayher/corerad/internal/config"
	"github.com/mdlayher/ndp"
	"verif.local/model"
	"verif.local/vlib"
)

// vSys draws a system state from the pools.
func vSys(r *rand.Rand) *model.Sys {
	s := &model.Sys{}
	n := r.Intn(6)
	for i := 0; i < n; i++ {
		s.Addrs = append(s.Addrs, vAddrPool[r.Intn(len(vAddrPool))])
	}
	if n > 0 && r.Intn(3) == 0 {
		s.Addrs = append(s.Addrs, s.Addrs[0]) // the OS may list an address twice
	}
	r.Shuffle(len(s.Addrs), func(i, j int) { s.Addrs[i], s.Addrs[j] = s.Addrs[j], s.Addrs[i] })
	m := r.Intn(5)
	for i := 0; i < m; i++ {
		s.Routes = append(s.Routes, vRoutePool[r.Intn(len(vRoutePool))])
	}
	if r.Intn(3) != 0 {
		s.MAC = []byte{0x02, 0, 0, byte(r.Intn(256)), byte(r.Intn(256)), 1}
	}
	if r.Intn(12) == 0 {
		s.AddrsErr = true
	}
	if r.Intn(12) == 0 {
		s.RoutesErr = true
	}
	return s
}

type vOldRA struct {
	ra *ndp.RouterAdvertisement
	b  []byte
}

// vHandedOut remembers, per interface, the last RA built and its wire form.
var vHandedOut = map[*config.Interface]vOldRA{}

var vClockOffsets = []time.Duration{-time.Hour, 0, time.Nanosecond, time.Second, 299 * time.Second, 300 * time.Second, 600 * time.Second,
	601 * time.Second, time.Hour, 4 * time.Hour, 24*time.Hour - time.Nanosecond, 24 * time.Hour, 25 * time.Hour, 365 * 24 * time.Hour}

// vCheckRA runs the C01 oracle on one interface of a parsed, accepted
// configuration.  It returns the number of RA builds compared.
func vCheckRA(r *vlib.Run, id, text string, ifi *config.Interface, exp *model.ExpIface, sys *model.Sys, fwd bool, now time.Time, repeats int) int {
	return vCheckRAInjected(r, id, text, ifi, exp, sys, fwd, now, repeats, true)
}

// vCheckRAInjected is vCheckRA; with inject=false the system state has already
// been installed (for every interface of the configuration at once).
func vCheckRAInjected(r *vlib.Run, id, text string, ifi *config.Interface, exp *model.ExpIface, sys *model.Sys, fwd bool, now time.Time, repeats int, inject bool) int {
	if inject {
		vInject(ifi, sys, func() time.Time { return now })
	}
	// An RA built under the previous system state of this interface is a value
	// that was handed out (transmitted, rendered): installing a new state must
	// not reach back into it.
	if old, ok := vHandedOut[ifi]; ok {
		b, err := ndp.MarshalMessage(old.ra)
		if err != nil || !bytes.Equal(b, old.b) {
			r.Violation(id, "earlier-ra-altered", fmt.Sprintf("an RA built before the interface was prepared again reads differently afterwards (marshal error: %v)", err),
				map[string]any{"toml": text, "interface": ifi.Name, "sys": sys, "before": fmt.Sprintf("%x", old.b), "after": fmt.Sprintf("%x", b)})
			delete(vHandedOut, ifi)
			return 0
		}
		r.Count("earlier_ras_rechecked", 1)
	}
	before := vDump(ifi)
	want, wantErr, dc := model.ExpectedRA(exp, sys, fwd, vEpoch, now)
	det := func(extra map[string]any) map[string]any {
		m := map[string]any{"toml": text, "interface": ifi.Name, "sys": sys, "forwarding": fwd, "now_minus_epoch": now.Sub(vEpoch).String()}
		for k, v := range extra {
			m[k] = v
		}
		return m
	}
	var first []byte
	n := 0
	for k := 0; k < repeats; k++ {
		ra, ms, err := ifi.RouterAdvertisement(fwd)
		n++
		if wantErr {
			if err == nil {
				r.Violation(id, "ra-should-fail", "RA generation succeeded although the system source failed / no eligible address exists", det(map[string]any{"got": model.FromNDP(ra)}))
				return n
			}
			continue
		}
		if err != nil {
			r.Violation(id, "ra-generation-error", "RA generation failed for an accepted configuration: "+err.Error(), det(nil))
			return n
		}
		got := model.FromNDP(ra)
		if dc == "" {
			if d := model.DiffRA(want, got); d != "" {
				r.Violation(id, "ra-content:"+vKindOf(d), "RA differs from what the configuration calls for: "+d, det(map[string]any{"want": want, "got": got}))
				return n
			}
		}
		wantMis := !fwd && exp.DefaultLifetime > 0
		if (len(ms) == 1 && ms[0] == config.InterfaceNotForwarding) != wantMis || len(ms) > 1 {
			r.Violation(id, "misconfiguration-report", fmt.Sprintf("misconfigurations %v, want interface_not_forwarding=%v", ms, wantMis), det(nil))
			return n
		}
		b, merr := ndp.MarshalMessage(ra)
		if merr == nil {
			if first == nil {
				first = b
				vHandedOut[ifi] = vOldRA{ra, b}
			} else if !bytes.Equal(first, b) {
				r.Violation(id, "rebuild-differs", "building the RA again produced different bytes", det(map[string]any{"build": k}))
				return n
			}
		}
	}
	if after := vDump(ifi); after != before {
		r.Violation(id, "config-mutated", "RA generation altered the configuration", det(map[string]any{"before": before, "after": after}))
	}
	return n
}

func vKindOf(diff string) string {
	if len(diff) > 6 && diff[:6] == "header" {
		return "header"
	}
	if len(diff) > 12 && diff[:12] == "option count" {
		return "option-count"
	}
	return "option"
}

// TestVerifC01 — every RA carries exactly what the configuration calls for.
func TestVerifC01(t *testing.T) {
	r := vlib.Start("C01", "ra")
	defer r.Finish()

	run := func(c model.Case) {
		if !r.Mine(c.ID) {
			return
		}
		tri, exp, _ := model.Expect(&c.Doc)
		if tri != model.Yes {
			return
		}
		text := c.Doc.TOML()
		r.Begin(c.ID)
		clear(vHandedOut)
		cfg, err, pan := vParse(text)
		if pan != nil || err != nil {
			// C02's business; here it only means there is nothing to observe.
			r.Count("skipped_not_accepted", 1)
			return
		}
		if len(cfg.Interfaces) != len(exp.Ifaces) {
			r.Count("skipped_iface_count", 1)
			return
		}
		sr := vlib.NewRand(r.Seed, "c01sys", c.ID)
		nS := r.Pick(2, 4)
		// Several interfaces (a `names` group or several stanzas): every interface
		// is first given its *own* system state, as the daemon does when each
		// advertiser prepares its plugins, and only then are the RAs built.
		if len(cfg.Interfaces) > 1 {
			for s := 0; s < nS; s++ {
				syss := make([]*model.Sys, len(cfg.Interfaces))
				now := vEpoch.Add(vClockOffsets[sr.Intn(len(vClockOffsets))])
				for i := range cfg.Interfaces {
					syss[i] = vSys(sr)
					syss[i].AddrsErr, syss[i].RoutesErr = false, false
					if syss[i].MAC != nil {
						syss[i].MAC[5] = byte(i + 1)
					}
					vInject(&cfg.Interfaces[i], syss[i], func() time.Time { return now })
				}
				for i := range cfg.Interfaces {
					if cfg.Interfaces[i].Monitor {
						continue
					}
					n := vCheckRAInjected(r, c.ID, text, &cfg.Interfaces[i], &exp.Ifaces[i], syss[i], s%2 == 0, now, 2, false)
					r.Count("ra_builds_compared", n)
					r.Count("multi_interface_builds", n)
				}
			}
		}
		for i := range cfg.Interfaces {
			ifi := &cfg.Interfaces[i]
			e := &exp.Ifaces[i]
			if ifi.Monitor {
				continue
			}
			kinds := map[string]bool{}
			wild := false
			for _, p := range e.Plugins {
				kinds[p.Kind] = true
				if p.Auto {
					wild = true
				}
			}
			for s := 0; s < nS; s++ {
				sys := vSys(sr)
				now := vEpoch.Add(vClockOffsets[sr.Intn(len(vClockOffsets))])
				for _, fwd := range []bool{true, false} {
					n := vCheckRA(r, c.ID, text, ifi, e, sys, fwd, now, 2+sr.Intn(2))
					r.Count("ra_builds_compared", n)
				}
			}
			if len(kinds) >= 3 || wild {
				r.Nontrivial(text + "|" + ifi.Name)
			}
			if r.WantSample() && len(kinds) >= 4 && wild {
				sys := vSys(sr)
				want, wantErr, _ := model.ExpectedRA(e, sys, true, vEpoch, vEpoch)
				r.Sample(map[string]any{"id": c.ID, "toml": text, "sys": sys, "expected_ra": want, "expected_error": wantErr})
			}
		}
	}

	for _, c := range model.InteractionDocs() {
		run(c)
	}
	for _, c := range model.BoundaryDocs() {
		run(c)
	}
	g := &model.Gen{R: r.Rand("c01", "random"), ValidOnly: true}
	n := r.Pick(8000, 600000)
	for i := 0; i < n; i++ {
		run(model.Case{ID: fmt.Sprintf("rand/%d", i), Doc: g.Doc()})
	}
}
