//go:build verif

package config_test

import (
	"bytes"
	"fmt"
	"runtime"
	"sync"
	"sync/atomic"
	"testing"
	"time"

	"github.com/mdlayher/corerad/internal/plugin"
	"github.com/mdlayher/corerad/internal/system"
	"github.com/mdlayher/ndp"
	"verif.local/model"
	"verif.local/vlib"
)

// TestVerifC01Concurrent — the advertiser, the metrics collector and the debug
// API build the RA of one parsed configuration from their own goroutines, for
// all its interfaces at once.  Under -race, four goroutines build the RAs of
// every advertising interface of a configuration while the points at which RA
// generation calls out (address source, route source, clock) yield the
// processor; every RA must be, byte for byte, the one a sequential build gives
// for that interface and that system state.
func TestVerifC01Concurrent(t *testing.T) {
	r := vlib.Start("C01", "concurrent")
	defer r.Finish()
	g := &model.Gen{R: r.Rand("c01", "concurrent"), ValidOnly: true}
	n := r.Pick(400, 8000)
	for i := 0; i < n; i++ {
		c := model.Case{ID: fmt.Sprintf("conc/%d", i), Doc: g.Doc()}
		if !r.Mine(c.ID) {
			continue
		}
		tri, exp, _ := model.Expect(&c.Doc)
		if tri != model.Yes {
			continue
		}
		text := c.Doc.TOML()
		cfg, err, pan := vParse(text)
		if pan != nil || err != nil || len(cfg.Interfaces) != len(exp.Ifaces) {
			r.Count("skipped_not_accepted", 1)
			continue
		}
		r.Begin(c.ID)
		sr := vlib.NewRand(r.Seed, "c01conc", c.ID)
		now := vEpoch.Add(vClockOffsets[sr.Intn(len(vClockOffsets))])
		var adv []int
		syss := make([]*model.Sys, len(cfg.Interfaces))
		for k := range cfg.Interfaces {
			if cfg.Interfaces[k].Monitor {
				continue
			}
			adv = append(adv, k)
			syss[k] = vSys(sr)
			syss[k].AddrsErr, syss[k].RoutesErr = false, false
			vInject(&cfg.Interfaces[k], syss[k], func() time.Time { runtime.Gosched(); return now })
			for _, p := range cfg.Interfaces[k].Plugins {
				switch p := p.(type) {
				case *plugin.Prefix:
					f := p.Addrs
					p.Addrs = func() ([]system.IP, error) { runtime.Gosched(); return f() }
				case *plugin.Route:
					f := p.Routes
					p.Routes = func() ([]system.Route, error) { runtime.Gosched(); return f() }
				case *plugin.RDNSS:
					f := p.Addrs
					p.Addrs = func() ([]system.IP, error) { runtime.Gosched(); return f() }
				}
			}
		}
		if len(adv) == 0 {
			continue
		}
		// sequential reference (C01's `ra` part compares these with the model)
		type ref struct {
			b   []byte
			err bool
		}
		want := map[[2]int]ref{}
		for _, k := range adv {
			for f := 0; f < 2; f++ {
				ra, _, err := cfg.Interfaces[k].RouterAdvertisement(f == 1)
				if err != nil {
					want[[2]int{k, f}] = ref{err: true}
					continue
				}
				b, merr := ndp.MarshalMessage(ra)
				if merr != nil {
					want[[2]int{k, f}] = ref{err: true}
					continue
				}
				want[[2]int{k, f}] = ref{b: b}
			}
		}
		var wg sync.WaitGroup
		var mu sync.Mutex
		viol := ""
		var builds atomic.Int64
		const G, iters = 4, 24
		for gi := 0; gi < G; gi++ {
			wg.Add(1)
			go func(gi int) {
				defer wg.Done()
				defer func() {
					if p := recover(); p != nil {
						mu.Lock()
						if viol == "" {
							viol = fmt.Sprintf("panic while RAs were built concurrently: %v", p)
						}
						mu.Unlock()
					}
				}()
				for it := 0; it < iters; it++ {
					k := adv[(gi+it)%len(adv)]
					f := (gi + it/2) % 2
					ra, _, err := cfg.Interfaces[k].RouterAdvertisement(f == 1)
					builds.Add(1)
					w := want[[2]int{k, f}]
					var b []byte
					if err == nil {
						b, err = ndp.MarshalMessage(ra)
					}
					if (err != nil) != w.err || err == nil && !bytes.Equal(b, w.b) {
						mu.Lock()
						if viol == "" {
							viol = fmt.Sprintf("interface %s (forwarding=%v), goroutine %d build %d: got %x (error %v), a sequential build gives %x (error %v)", cfg.Interfaces[k].Name, f == 1, gi, it, b, err, w.b, w.err)
						}
						mu.Unlock()
						return
					}
				}
			}(gi)
		}
		wg.Wait()
		r.Count("concurrent_ra_builds_compared", int(builds.Load()))
		if len(adv) > 1 {
			r.Count("configurations_with_several_interfaces", 1)
		}
		r.Nontrivial(text)
		if viol != "" {
			r.Violation(c.ID, "concurrent-build-differs", viol, map[string]any{"toml": text, "sys": syss, "now_minus_epoch": now.Sub(vEpoch).String()})
		}
	}
}
