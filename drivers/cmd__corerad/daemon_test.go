//go:build verif

package main

import (
	"bytes"
	"encoding/json"
	"fmt"
	"io"
	"net"
	"net/http"
	"net/netip"
	"os"
	"os/exec"
	"path/filepath"
	"strings"
	"sync"
	"syscall"
	"testing"
	"time"

	"github.com/mdlayher/ndp"
	"golang.org/x/net/ipv6"
	"verif.local/model"
	"verif.local/vlib"
)

// TestVerifAsDaemon turns this test binary into the daemon itself (built from
// the current working tree, with the race detector when the part asks for it).
func TestVerifAsDaemon(t *testing.T) {
	if os.Getenv("VERIF_AS_DAEMON") != "1" {
		t.Skip("not a daemon invocation")
	}
	os.Args = append([]string{"corerad"}, strings.Fields(os.Getenv("VERIF_DAEMON_ARGS"))...)
	main()
}

type rEvent struct {
	Seq  int
	T    time.Duration
	Kind string // ra notify signal exit note
	Life time.Duration
	Dst  string
	Hop  int
	Text string
	RA   *model.RA
	Src  string // ra: the sender's address (without zone)
}

type rLog struct {
	mu    sync.Mutex
	start time.Time
	ev    []rEvent
}

func (l *rLog) add(e rEvent) int {
	l.mu.Lock()
	defer l.mu.Unlock()
	e.Seq = len(l.ev)
	e.T = time.Since(l.start)
	l.ev = append(l.ev, e)
	return e.Seq
}

func (l *rLog) snapshot() []rEvent {
	l.mu.Lock()
	defer l.mu.Unlock()
	return append([]rEvent(nil), l.ev...)
}

func (l *rLog) waitFor(pred func(rEvent) bool, after int, max time.Duration) (rEvent, bool) {
	dl := time.Now().Add(max)
	for {
		for _, e := range l.snapshot() {
			if e.Seq > after && pred(e) {
				return e, true
			}
		}
		if time.Now().After(dl) {
			return rEvent{}, false
		}
		time.Sleep(5 * time.Millisecond)
	}
}

func (l *rLog) strings() []string {
	var out []string
	for _, e := range l.snapshot() {
		s := fmt.Sprintf("#%d %v %s", e.Seq, e.T.Round(time.Millisecond), e.Kind)
		if e.Kind == "ra" {
			s += fmt.Sprintf(" dst=%s life=%v hop=%d", e.Dst, e.Life, e.Hop)
		}
		if e.Text != "" {
			s += " " + e.Text
		}
		out = append(out, s)
	}
	return out
}

// A probe listens on vb and records every RA.
type probe struct {
	c  *ndp.Conn
	ip netip.Addr
	lg *rLog
}

func newProbe(lg *rLog) (*probe, error) { return newProbeOn("vb", "ra", lg) }

// newProbeOn listens on the named end of the veth pair and logs every RA that
// arrives there under the given event kind.
func newProbeOn(name, kind string, lg *rLog) (*probe, error) {
	ifi, err := net.InterfaceByName(name)
	if err != nil {
		return nil, err
	}
	c, ip, err := ndp.Listen(ifi, ndp.LinkLocal)
	if err != nil {
		return nil, err
	}
	var f ipv6.ICMPFilter
	f.SetAll(true)
	f.Accept(ipv6.ICMPTypeRouterAdvertisement)
	_ = c.SetICMPFilter(&f)
	_ = c.SetControlMessage(ipv6.FlagHopLimit|ipv6.FlagDst, true)
	p := &probe{c: c, ip: ip, lg: lg}
	go func() {
		for {
			m, cm, src, err := c.ReadFrom()
			if err != nil {
				return
			}
			ra, ok := m.(*ndp.RouterAdvertisement)
			if !ok {
				continue
			}
			x := model.FromNDP(ra)
			e := rEvent{Kind: kind, Life: ra.RouterLifetime, RA: &x, Src: src.WithZone("").String()}
			if cm != nil {
				e.Hop = cm.HopLimit
				if cm.Dst != nil {
					e.Dst = cm.Dst.String()
				}
			}
			lg.add(e)
		}
	}()
	return p, nil
}

func (p *probe) rs(hop int) error {
	var cm *ipv6.ControlMessage
	if hop != 255 {
		cm = &ipv6.ControlMessage{HopLimit: hop}
	}
	return p.c.WriteTo(&ndp.RouterSolicitation{Options: []ndp.Option{&ndp.LinkLayerAddress{Direction: ndp.Source, Addr: net.HardwareAddr{2, 0, 0, 0, 0xb, 1}}}}, cm, netip.IPv6LinkLocalAllRouters())
}

type daemon struct {
	cmd    *exec.Cmd
	stderr *bytes.Buffer
	lg     *rLog
	done   chan struct{}
	code   int
	nsock  *net.UnixConn
	dir    string
}

func startDaemon(lg *rLog, dir, cfg string) (*daemon, error) {
	cfgPath := filepath.Join(dir, "corerad.toml")
	if err := os.WriteFile(cfgPath, []byte(cfg), 0o644); err != nil {
		return nil, err
	}
	sock := filepath.Join(dir, "notify.sock")
	_ = os.Remove(sock)
	nc, err := net.ListenUnixgram("unixgram", &net.UnixAddr{Name: sock, Net: "unixgram"})
	if err != nil {
		return nil, err
	}
	d := &daemon{stderr: &bytes.Buffer{}, lg: lg, done: make(chan struct{}), nsock: nc, dir: dir}
	go func() {
		buf := make([]byte, 4096)
		for {
			n, _, err := nc.ReadFromUnix(buf)
			if err != nil {
				return
			}
			for _, line := range strings.Split(string(buf[:n]), "\n") {
				if strings.HasPrefix(line, "READY=") || strings.HasPrefix(line, "STOPPING=") {
					lg.add(rEvent{Kind: "notify", Text: line})
				}
			}
		}
	}()
	d.cmd = exec.Command(os.Args[0], "-test.run", "^TestVerifAsDaemon$", "-test.timeout=0")
	d.cmd.Env = append(os.Environ(), "VERIF_AS_DAEMON=1", "VERIF_DAEMON_ARGS=-c "+cfgPath, "NOTIFY_SOCKET="+sock, "VERIF_OUT=", "GORACE=halt_on_error=0 log_path="+filepath.Join(dir, "daemon.race"))
	d.cmd.Stderr = d.stderr
	d.cmd.Stdout = d.stderr
	if err := d.cmd.Start(); err != nil {
		return nil, err
	}
	lg.add(rEvent{Kind: "note", Text: "daemon started"})
	go func() {
		err := d.cmd.Wait()
		d.code = 0
		if err != nil {
			d.code = -1
			if ee, ok := err.(*exec.ExitError); ok {
				d.code = ee.ExitCode()
			}
		}
		lg.add(rEvent{Kind: "exit", Text: fmt.Sprintf("code=%d", d.code)})
		close(d.done)
	}()
	return d, nil
}

func (d *daemon) alive() bool {
	select {
	case <-d.done:
		return false
	default:
		return true
	}
}

func (d *daemon) signal(s syscall.Signal) {
	d.lg.add(rEvent{Kind: "signal", Text: s.String()})
	_ = d.cmd.Process.Signal(s)
}

func (d *daemon) waitExit(max time.Duration) bool {
	select {
	case <-d.done:
		return true
	case <-time.After(max):
		return false
	}
}

func (d *daemon) kill() {
	if d.alive() {
		_ = d.cmd.Process.Kill()
		<-d.done
	}
	d.nsock.Close()
}

func sysctl(name string) string {
	b, _ := os.ReadFile("/proc/sys/net/ipv6/conf/va/" + name)
	return strings.TrimSpace(string(b))
}

func setSysctl(name, v string) {
	_ = os.WriteFile("/proc/sys/net/ipv6/conf/va/"+name, []byte(v), 0o644)
}

func sh(args ...string) error { return exec.Command(args[0], args[1:]...).Run() }

func httpGet(path string) (int, string, error) {
	c := &http.Client{Timeout: 3 * time.Second}
	resp, err := c.Get("http://127.0.0.1:9430" + path)
	if err != nil {
		return 0, "", err
	}
	defer resp.Body.Close()
	b, _ := io.ReadAll(resp.Body)
	return resp.StatusCode, string(b), nil
}

func metricValue(body, line string) (string, bool) {
	for _, l := range strings.Split(body, "\n") {
		if strings.HasPrefix(l, line+" ") {
			return strings.TrimSpace(strings.TrimPrefix(l, line)), true
		}
	}
	return "", false
}

const baseCfg = `[[interfaces]]
name = "va"
advertise = true
max_interval = "4s"
  [[interfaces.prefix]]
  prefix = "2001:db8::/64"
  [[interfaces.pref64]]
[debug]
address = "127.0.0.1:9430"
prometheus = true
`

func isRA(e rEvent) bool { return e.Kind == "ra" }

// TestVerifDaemon — the real daemon in a private network namespace.
func TestVerifDaemon(t *testing.T) {
	prop := os.Getenv("VERIF_PROP")
	r := vlib.Start(prop, "daemon")
	defer r.Finish()
	if os.Getenv("VERIF_IN_NETNS") != "1" {
		r.Inconclusive("daemon", "not running inside the private network namespace")
		return
	}
	dir, err := os.MkdirTemp("", "verif-daemon-")
	if err != nil {
		r.Inconclusive("daemon", err.Error())
		return
	}
	defer os.RemoveAll(dir)

	scen := func(id string, fn func(id string, lg *rLog, p *probe) (viol, cls string)) {
		if !r.Mine(id) {
			return
		}
		r.Begin(id)
		r.Nontrivial(id)
		lg := &rLog{start: time.Now()}
		p, err := newProbe(lg)
		if err != nil {
			r.Inconclusive(id, "probe: "+err.Error())
			return
		}
		defer p.c.Close()
		setSysctl("forwarding", "1")
		setSysctl("autoconf", "1")
		_ = sh("ip", "link", "set", "va", "up")
		_ = sh("ip", "link", "set", "vb", "up")
		time.Sleep(50 * time.Millisecond)
		viol, cls := fn(id, lg, p)
		r.Count("daemon_events_observed", len(lg.snapshot()))
		if viol != "" {
			if cls == "inconclusive" {
				r.Inconclusive(id, viol)
				return
			}
			r.Violation(id, "daemon:"+cls, viol, map[string]any{"log": lg.strings()})
		} else if r.WantSample() {
			r.Sample(map[string]any{"id": id, "log": lg.strings()})
		}
	}

	sigs := map[string]syscall.Signal{"INT": syscall.SIGINT, "TERM": syscall.SIGTERM, "HUP": syscall.SIGHUP}

	if prop == "C08" || prop == "C20" {
		for name, sig := range sigs {
			for _, when := range []string{"idle", "after-rs"} {
				name, sig, when := name, sig, when
				scen(fmt.Sprintf("signal/%s/%s", name, when), func(id string, lg *rLog, p *probe) (string, string) {
					d, err := startDaemon(lg, dir, baseCfg)
					if err != nil {
						return err.Error(), "inconclusive"
					}
					defer d.kill()
					if _, ok := lg.waitFor(func(e rEvent) bool { return e.Kind == "notify" && e.Text == "READY=1" }, -1, 8*time.Second); !ok {
						return "READY=1 not announced within 8 s: " + d.stderr.String(), "inconclusive"
					}
					first, ok := lg.waitFor(isRA, -1, 5*time.Second)
					if !ok {
						return "no RA seen within 5 s", "inconclusive"
					}
					if first.Life == 0 {
						return "the first RA already has router lifetime 0 with forwarding enabled", "lifetime"
					}
					during := sysctl("autoconf")
					if when == "after-rs" {
						_ = p.rs(255)
						time.Sleep(30 * time.Millisecond)
					} else {
						time.Sleep(600 * time.Millisecond)
					}
					mark := len(lg.snapshot()) - 1
					d.signal(sig)
					if !d.waitExit(25 * time.Second) {
						return "daemon did not exit within 25 s of SIG" + name, "no-exit"
					}
					time.Sleep(100 * time.Millisecond)
					if d.code != 0 {
						return fmt.Sprintf("daemon exited with status %d after SIG%s: %s", d.code, name, lastLines(d.stderr.String(), 5)), "exit-status"
					}
					var zero, after []rEvent
					for _, e := range lg.snapshot() {
						if e.Seq > mark && e.Kind == "ra" {
							after = append(after, e)
							if e.Life == 0 {
								zero = append(zero, e)
							}
						}
					}
					if name == "HUP" {
						if len(zero) != 0 {
							return "a zero-lifetime RA was sent on SIGHUP (reload)", "final-ra-on-reload"
						}
					} else {
						if len(zero) != 1 {
							return fmt.Sprintf("%d zero-lifetime RAs after SIG%s, want exactly 1", len(zero), name), "final-ra-count"
						}
						if after[len(after)-1].Seq != zero[0].Seq {
							return "a packet followed the final zero-lifetime RA", "final-ra-not-last"
						}
						if zero[0].Dst != "ff02::1" {
							return "the final RA went to " + zero[0].Dst, "final-ra-destination"
						}
					}
					if _, ok := lg.waitFor(func(e rEvent) bool { return e.Kind == "notify" && e.Text == "STOPPING=1" }, -1, time.Second); !ok {
						return "STOPPING=1 was not announced", "no-stopping"
					}
					if during != "0" {
						return "autoconf was " + during + " while advertising", "autoconf-during"
					}
					if got := sysctl("autoconf"); got != "1" {
						return "autoconf is " + got + " after exit, it was 1 before", "autoconf-not-restored"
					}
					r.Count("signal_scenarios_ok", 1)
					return "", ""
				})
			}
		}
	}

	if prop == "C08" || prop == "C20" {
		// Two advertising interfaces in one daemon (both ends of the veth pair):
		// whether the signal means terminate or reload is one decision that every
		// advertiser acts on - each sends its own final RA, or none does.
		for name, sig := range sigs {
			name, sig := name, sig
			scen("signal/two-interfaces/"+name, func(id string, lg *rLog, p *probe) (string, string) {
				_ = os.WriteFile("/proc/sys/net/ipv6/conf/vb/forwarding", []byte("1"), 0o644)
				defer os.WriteFile("/proc/sys/net/ipv6/conf/vb/forwarding", []byte("0"), 0o644)
				p2, err := newProbeOn("va", "ra2", lg)
				if err != nil {
					return "second probe: " + err.Error(), "inconclusive"
				}
				defer p2.c.Close()
				llOf := func(n string) string { // EUI-64 link-local address of the interface
					ifi, err := net.InterfaceByName(n)
					if err != nil {
						return ""
					}
					as, _ := ifi.Addrs()
					for _, a := range as {
						if ipn, ok := a.(*net.IPNet); ok && ipn.IP.IsLinkLocalUnicast() {
							return ipn.IP.String()
						}
					}
					return ""
				}
				vaLL, vbLL := llOf("va"), llOf("vb")
				cfg := "[[interfaces]]\nnames = [\"va\", \"vb\"]\nadvertise = true\nmax_interval = \"4s\"\n  [[interfaces.prefix]]\n  prefix = \"2001:db8::/64\"\n[debug]\naddress = \"127.0.0.1:9430\"\nprometheus = true\n"
				d, err := startDaemon(lg, dir, cfg)
				if err != nil {
					return err.Error(), "inconclusive"
				}
				defer d.kill()
				if _, ok := lg.waitFor(func(e rEvent) bool { return e.Kind == "notify" && e.Text == "READY=1" }, -1, 8*time.Second); !ok {
					return "READY=1 not announced within 8 s: " + lastLines(d.stderr.String(), 5), "inconclusive"
				}
				fromVA := func(e rEvent) bool { return e.Kind == "ra" && e.Src == vaLL }
				fromVB := func(e rEvent) bool { return e.Kind == "ra2" && e.Src == vbLL }
				if _, ok := lg.waitFor(fromVA, -1, 6*time.Second); !ok {
					return "no RA from va seen on vb within 6 s", "inconclusive"
				}
				if _, ok := lg.waitFor(fromVB, -1, 6*time.Second); !ok {
					return "no RA from vb seen on va within 6 s", "inconclusive"
				}
				time.Sleep(300 * time.Millisecond)
				mark := len(lg.snapshot()) - 1
				d.signal(sig)
				if !d.waitExit(25 * time.Second) {
					return "daemon did not exit within 25 s of SIG" + name, "no-exit"
				}
				time.Sleep(150 * time.Millisecond)
				if d.code != 0 {
					return fmt.Sprintf("daemon exited with status %d after SIG%s: %s", d.code, name, lastLines(d.stderr.String(), 5)), "exit-status"
				}
				zero := map[string]int{}
				for _, e := range lg.snapshot() {
					if e.Seq > mark && e.Life == 0 && (fromVA(e) || fromVB(e)) {
						zero[e.Src]++
					}
				}
				want := 1
				if name == "HUP" {
					want = 0
				}
				if zero[vaLL] != want || zero[vbLL] != want {
					return fmt.Sprintf("after SIG%s the advertiser of va sent %d and the advertiser of vb sent %d zero-lifetime RAs, want %d each", name, zero[vaLL], zero[vbLL], want), "final-ra-count"
				}
				r.Count("two_interface_signal_scenarios_ok", 1)
				return "", ""
			})
		}
	}

	if prop == "C04" {
		scen("forwarding-flips", func(id string, lg *rLog, p *probe) (string, string) {
			d, err := startDaemon(lg, dir, baseCfg)
			if err != nil {
				return err.Error(), "inconclusive"
			}
			defer d.kill()
			if _, ok := lg.waitFor(isRA, -1, 8*time.Second); !ok {
				return "no RA within 8 s: " + lastLines(d.stderr.String(), 5), "inconclusive"
			}
			for i, fwd := range []string{"0", "1", "0", "0", "1"} {
				setSysctl("forwarding", fwd)
				time.Sleep(20 * time.Millisecond)
				mark := len(lg.snapshot()) - 1
				_ = p.rs(255)
				e, ok := lg.waitFor(func(e rEvent) bool { return e.Kind == "ra" && e.Dst != "ff02::1" }, mark, 3*time.Second)
				if !ok {
					return fmt.Sprintf("flip %d: solicitation not answered within 3 s", i), "inconclusive"
				}
				want := 12 * time.Second
				if fwd == "0" {
					want = 0
				}
				if e.Life != want {
					return fmt.Sprintf("flip %d: forwarding=%s but the solicited RA has router lifetime %v (want %v)", i, fwd, e.Life, want), "lifetime"
				}
				code, body, err := httpGet("/metrics")
				if err != nil || code != 200 {
					return fmt.Sprintf("flip %d: /metrics: %v %d", i, err, code), "scrape"
				}
				if v, _ := metricValue(body, `corerad_interface_forwarding{interface="va"}`); v != fwd {
					return fmt.Sprintf("flip %d: forwarding gauge %q, want %s", i, v, fwd), "scrape"
				}
				_, mis := metricValue(body, `corerad_advertiser_misconfiguration{details="interface_not_forwarding",interface="va"}`)
				if mis != (fwd == "0") {
					return fmt.Sprintf("flip %d: misconfiguration sample present=%v with forwarding=%s", i, mis, fwd), "scrape"
				}
				code, body, err = httpGet("/_/api/interfaces")
				if err != nil || code != 200 || !strings.Contains(body, fmt.Sprintf(`"router_lifetime_seconds":%d`, int(want.Seconds()))) {
					return fmt.Sprintf("flip %d: API %v %d does not show router_lifetime_seconds %d: %s", i, err, code, int(want.Seconds()), body), "api"
				}
				logged := strings.Count(strings.ToLower(d.stderr.String()), "forwarding") > 0
				if fwd == "0" && !logged {
					return "no 'not forwarding' log line", "log"
				}
				r.Count("forwarding_flips_observed", 1)
			}
			return "", ""
		})
	}

	if prop == "C18" {
		scen("monitor-real", c18Real(r, dir))
	}
	if prop == "C12" {
		scen("inconsistent-real", c12Real(r, dir))
	}

	if prop == "C07" {
		scen("rs-real/normal", c07Real(r, dir, false))
		scen("rs-real/unicast-only", c07Real(r, dir, true))
	}

	if prop == "C17" {
		scen("scrape-while-link-down", func(id string, lg *rLog, p *probe) (string, string) {
			_ = sh("ip", "link", "set", "va", "down")
			cfg := "[[interfaces]]\nname = \"va\"\nadvertise = true\nmax_interval = \"4s\"\n  [[interfaces.prefix]]\n  [[interfaces.rdnss]]\n  [[interfaces.route]]\n  [[interfaces.prefix]]\n  prefix = \"2001:db8:dead::/64\"\n  deprecated = true\n[debug]\naddress = \"127.0.0.1:9430\"\nprometheus = true\n"
			d, err := startDaemon(lg, dir, cfg)
			if err != nil {
				return err.Error(), "inconclusive"
			}
			defer d.kill()
			// wait for the HTTP server
			okHTTP := false
			for i := 0; i < 100; i++ {
				if _, _, err := httpGet("/"); err == nil {
					okHTTP = true
					break
				}
				time.Sleep(50 * time.Millisecond)
			}
			if !okHTTP {
				return "debug HTTP server did not come up: " + lastLines(d.stderr.String(), 5), "inconclusive"
			}
			for i := 0; i < 3; i++ {
				code, mbody, err := httpGet("/metrics")
				c2, _, err2 := httpGet("/_/api/interfaces")
				lg.add(rEvent{Kind: "note", Text: fmt.Sprintf("link down: /metrics %d %v, API %d %v", code, err, c2, err2)})
				time.Sleep(50 * time.Millisecond)
				if !d.alive() {
					return fmt.Sprintf("a scrape/request before the interface came up killed the daemon (exit %d): %s", d.code, lastLines(d.stderr.String(), 6)), "crash"
				}
				if err2 != nil || (c2 != 200 && c2 != 500) {
					return fmt.Sprintf("API before initialisation: %v status %d", err2, c2), "api"
				}
				if err != nil || (code != 200 && code != 500) {
					return fmt.Sprintf("/metrics before initialisation: %v status %d", err, code), "scrape"
				}
				if code == 200 {
					// no error reported: then the scrape claims to be complete
					if _, ok := metricValue(mbody, `corerad_interface_advertising{interface="va"}`); !ok {
						return "/metrics answered 200 before initialisation but carries no sample for the configured interface (neither an error nor the current state)", "scrape-silently-incomplete"
					}
				}
			}
			_ = sh("ip", "-6", "addr", "add", "2001:db8:77::1/64", "dev", "va", "nodad")
			_ = sh("ip", "link", "set", "va", "up")
			e, ok := lg.waitFor(isRA, -1, 10*time.Second)
			if !ok {
				return "no RA within 10 s of the link coming up: " + lastLines(d.stderr.String(), 6), "inconclusive"
			}
			time.Sleep(100 * time.Millisecond)
			code, body, err := httpGet("/metrics")
			if err != nil || code != 200 {
				return fmt.Sprintf("/metrics after initialisation: %v %d", err, code), "scrape"
			}
			for _, o := range e.RA.Options {
				if o.Kind == "prefix" {
					if _, ok := metricValue(body, fmt.Sprintf(`corerad_advertiser_prefix_on_link{interface="va",prefix="%s"}`, o.Prefix)); !ok {
						return "advertised prefix " + o.Prefix + " has no sample in /metrics", "scrape-content"
					}
					r.Count("prefix_samples_matched", 1)
				}
			}
			return "", ""
		})
	}

	if prop == "C17" {
		// Three interfaces in one configuration, the first of which is neither
		// advertised on nor monitored: the metrics and the debug API (built from the
		// same configuration as the tasks) report each of them once, in order.
		scen("interface-list", func(id string, lg *rLog, p *probe) (string, string) {
			cfg := "[[interfaces]]\nname = \"lo\"\n[[interfaces]]\nname = \"va\"\nadvertise = true\nmax_interval = \"4s\"\n  [[interfaces.prefix]]\n  prefix = \"2001:db8:17::/64\"\n[[interfaces]]\nname = \"vb\"\nmonitor = true\n[debug]\naddress = \"127.0.0.1:9430\"\nprometheus = true\n"
			d, err := startDaemon(lg, dir, cfg)
			if err != nil {
				return err.Error(), "inconclusive"
			}
			defer d.kill()
			if _, ok := lg.waitFor(isRA, -1, 8*time.Second); !ok {
				return "no RA within 8 s: " + lastLines(d.stderr.String(), 5), "inconclusive"
			}
			time.Sleep(200 * time.Millisecond)
			code, body, err := httpGet("/metrics")
			if err != nil || code != 200 {
				return fmt.Sprintf("/metrics with three configured interfaces: %v %d %s", err, code, lastLines(body, 4)), "scrape"
			}
			for _, w := range [][3]string{{"lo", "0", "0"}, {"va", "1", "0"}, {"vb", "0", "1"}} {
				a, ok1 := metricValue(body, `corerad_interface_advertising{interface="`+w[0]+`"}`)
				m, ok2 := metricValue(body, `corerad_interface_monitoring{interface="`+w[0]+`"}`)
				if !ok1 || !ok2 || a != w[1] || m != w[2] {
					return fmt.Sprintf("interface %s: advertising gauge %q (present %v), monitoring gauge %q (present %v); configured advertising=%s monitoring=%s", w[0], a, ok1, m, ok2, w[1], w[2]), "scrape-content"
				}
			}
			code, body, err = httpGet("/_/api/interfaces")
			if err != nil || code != 200 {
				return fmt.Sprintf("API with three configured interfaces: %v %d %s", err, code, body), "api"
			}
			var doc struct {
				Interfaces []struct {
					Interface     string          `json:"interface"`
					Advertise     bool            `json:"advertise"`
					Advertisement json.RawMessage `json:"advertisement"`
				} `json:"interfaces"`
			}
			if err := json.Unmarshal([]byte(body), &doc); err != nil {
				return "API body: " + err.Error(), "api"
			}
			var names []string
			for _, e := range doc.Interfaces {
				names = append(names, fmt.Sprintf("%s/%v/%v", e.Interface, e.Advertise, len(e.Advertisement) > 4))
			}
			if got, want := strings.Join(names, " "), "lo/false/false va/true/true vb/false/false"; got != want {
				return "the debug API lists " + got + ", the configuration is " + want + " (name/advertise/has advertisement)", "api-content"
			}
			r.Count("interface_list_scenarios_ok", 1)
			return "", ""
		})
	}

	if prop == "C09" || prop == "C10" {
		scen("invalid-then-valid", func(id string, lg *rLog, p *probe) (string, string) {
			d, err := startDaemon(lg, dir, baseCfg)
			if err != nil {
				return err.Error(), "inconclusive"
			}
			defer d.kill()
			if _, ok := lg.waitFor(isRA, -1, 8*time.Second); !ok {
				return "no RA within 8 s", "inconclusive"
			}
			for i := 0; i < 10; i++ {
				_ = p.rs(64)
			}
			time.Sleep(200 * time.Millisecond)
			mark := len(lg.snapshot()) - 1
			for _, e := range lg.snapshot() {
				if e.Kind == "ra" && e.Dst != "ff02::1" {
					return "a solicitation with hop limit 64 was answered", "answered-invalid"
				}
			}
			if !d.alive() {
				return "10 invalid solicitations ended the daemon: " + lastLines(d.stderr.String(), 4), "service-ended"
			}
			_ = p.rs(255)
			if _, ok := lg.waitFor(func(e rEvent) bool { return e.Kind == "ra" && e.Dst != "ff02::1" }, mark, 3*time.Second); !ok {
				return "the valid solicitation after 10 invalid ones was not answered within 3 s", "deaf"
			}
			_, body, _ := httpGet("/metrics")
			if v, _ := metricValue(body, `corerad_messages_received_invalid_total{interface="va",message="router solicitation"}`); v != "10" {
				return "invalid counter is " + v + ", want 10", "invalid-counter"
			}
			// C10: link flap on the peer → re-initialisation, service resumes
			_ = sh("ip", "link", "set", "vb", "down")
			time.Sleep(300 * time.Millisecond)
			_ = sh("ip", "link", "set", "vb", "up")
			dl := time.Now().Add(15 * time.Second)
			answered := false
			for time.Now().Before(dl) && !answered {
				mark = len(lg.snapshot()) - 1
				_ = p.rs(255)
				_, answered = lg.waitFor(func(e rEvent) bool { return e.Kind == "ra" && e.Dst != "ff02::1" }, mark, time.Second)
				if !d.alive() {
					return "the daemon ended after a link flap: " + lastLines(d.stderr.String(), 4), "service-ended"
				}
			}
			if !answered {
				return "no solicitation was answered within 15 s after the link flap: " + lastLines(d.stderr.String(), 6), "half-alive"
			}
			r.Count("link_flap_recovered", 1)
			return "", ""
		})
	}

	if prop == "C06" {
		// A process frozen for longer than the minimum delay (SIGSTOP, VM pause,
		// starvation): an RA that became due during the freeze and the overdue
		// periodic RA must still be transmitted 3 s apart once it continues.
		scen("frozen-with-ra-pending", func(id string, lg *rLog, p *probe) (string, string) {
			cfg := "[[interfaces]]\nname = \"va\"\nadvertise = true\nmax_interval = \"4s\"\n  [[interfaces.prefix]]\n  prefix = \"2001:db8::/64\"\n"
			d, err := startDaemon(lg, dir, cfg)
			if err != nil {
				return err.Error(), "inconclusive"
			}
			defer d.kill()
			if _, ok := lg.waitFor(isRA, -1, 8*time.Second); !ok {
				return "no RA within 8 s: " + lastLines(d.stderr.String(), 4), "inconclusive"
			}
			time.Sleep(8500 * time.Millisecond) // RAs at 0, 3, 6 s; the one planned for 9 s is pending
			d.signal(syscall.SIGSTOP)
			time.Sleep(9 * time.Second)
			mark := len(lg.snapshot()) - 1
			d.signal(syscall.SIGCONT)
			time.Sleep(8 * time.Second)
			var ts []time.Duration
			for _, e := range lg.snapshot() {
				if e.Seq > mark && e.Kind == "ra" && e.Dst == "ff02::1" {
					ts = append(ts, e.T)
				}
			}
			lg.add(rEvent{Kind: "note", Text: fmt.Sprintf("multicast RAs after SIGCONT at %v", ts)})
			if len(ts) < 2 {
				return fmt.Sprintf("only %d multicast RAs in the 8 s after SIGCONT", len(ts)), "inconclusive"
			}
			for i := 1; i < len(ts); i++ {
				if gap := ts[i] - ts[i-1]; gap < 3*time.Second-time.Second {
					return fmt.Sprintf("after the process was frozen for 9 s, multicast RAs %d and %d were transmitted %v apart (< 3 s): %v", i-1, i, gap.Round(time.Microsecond), ts), "spacing-after-stall"
				}
			}
			r.Count("stall_scenarios_ok", 1)
			return "", ""
		})
	}

	if prop == "C05" {
		// A process frozen for longer than MaxRtrAdvInterval while nothing is
		// pending: once it continues, the overdue unsolicited RA goes out and every
		// later one still follows a full wait (a timer never fires early, so this
		// lower bound also holds on a loaded machine).  max_interval = 6 s gives
		// min_interval = 6 s; waits of 6 s keep the 3 s rate limit out of the picture.
		scen("frozen-while-idle", func(id string, lg *rLog, p *probe) (string, string) {
			cfg := "[[interfaces]]\nname = \"va\"\nadvertise = true\nmax_interval = \"6s\"\n  [[interfaces.prefix]]\n  prefix = \"2001:db8::/64\"\n"
			d, err := startDaemon(lg, dir, cfg)
			if err != nil {
				return err.Error(), "inconclusive"
			}
			defer d.kill()
			if _, ok := lg.waitFor(isRA, -1, 8*time.Second); !ok {
				return "no RA within 8 s: " + lastLines(d.stderr.String(), 4), "inconclusive"
			}
			time.Sleep(13 * time.Second) // RAs at 0, 3 (first request, delayed), 6, 12 s
			d.signal(syscall.SIGSTOP)
			time.Sleep(8 * time.Second)
			mark := len(lg.snapshot()) - 1
			d.signal(syscall.SIGCONT)
			time.Sleep(13500 * time.Millisecond)
			var ts []time.Duration
			for _, e := range lg.snapshot() {
				if e.Seq > mark && e.Kind == "ra" && e.Dst == "ff02::1" {
					ts = append(ts, e.T)
				}
			}
			lg.add(rEvent{Kind: "note", Text: fmt.Sprintf("multicast RAs after SIGCONT at %v", ts)})
			if len(ts) < 3 {
				return fmt.Sprintf("only %d multicast RAs in the 13.5 s after SIGCONT", len(ts)), "inconclusive"
			}
			for i := 1; i < len(ts); i++ {
				if gap := ts[i] - ts[i-1]; gap < 6*time.Second-time.Second {
					return fmt.Sprintf("after the process was frozen for 8 s, unsolicited RAs %d and %d are %v apart (MinRtrAdvInterval is 6 s): %v", i-1, i, gap.Round(time.Millisecond), ts), "wait-below-min-after-stall"
				}
			}
			r.Count("stall_scenarios_ok", 1)
			return "", ""
		})
	}

	if prop == "C16" {
		scen("deprecated-countdown", func(id string, lg *rLog, p *probe) (string, string) {
			const valid, pref = 7 * time.Second, 4 * time.Second
			cfg := "[[interfaces]]\nname = \"va\"\nadvertise = true\nmax_interval = \"4s\"\n  [[interfaces.prefix]]\n  prefix = \"2001:db8:dead::/64\"\n  deprecated = true\n  valid_lifetime = \"7s\"\n  preferred_lifetime = \"4s\"\n  [[interfaces.route]]\n  prefix = \"2001:db8:beef::/48\"\n  deprecated = true\n  lifetime = \"5s\"\n  [[interfaces.prefix]]\n  prefix = \"2001:db8:cafe::/64\"\n"
			spawn := time.Since(lg.start)
			d, err := startDaemon(lg, dir, cfg)
			if err != nil {
				return err.Error(), "inconclusive"
			}
			defer d.kill()
			rdy, ok := lg.waitFor(func(e rEvent) bool { return e.Kind == "notify" && e.Text == "READY=1" }, -1, 8*time.Second)
			if !ok {
				return "READY=1 not announced: " + lastLines(d.stderr.String(), 4), "inconclusive"
			}
			var lastV, lastP, lastR time.Duration = 1 << 62, 1 << 62, 1 << 62
			sawZero := false
			for i := 0; i < 12; i++ {
				_ = p.rs(255)
				time.Sleep(750 * time.Millisecond)
			}
			for _, e := range lg.snapshot() {
				if e.Kind != "ra" {
					continue
				}
				for _, o := range e.RA.Options {
					switch {
					case o.Kind == "prefix" && o.Prefix == "2001:db8:cafe::/64":
						if o.Valid != int64(24*time.Hour) || o.Preferred != int64(4*time.Hour) {
							return fmt.Sprintf("non-deprecated prefix advertised valid=%v preferred=%v", time.Duration(o.Valid), time.Duration(o.Preferred)), "constant-changed"
						}
					case o.Kind == "prefix" && o.Prefix == "2001:db8:dead::/64":
						v, pr := time.Duration(o.Valid), time.Duration(o.Preferred)
						// the epoch lies between spawn and READY; the RA was built at most
						// ~0.6 s (unicast delay) before it was received
						lo := valid - (e.T - spawn) - time.Second
						hi := valid - (e.T - rdy.T) + 5*time.Second
						if lo < 0 {
							lo = 0
						}
						if hi < 0 {
							hi = 0
						}
						if v < lo.Truncate(time.Second) || v > hi {
							return fmt.Sprintf("at %v the deprecated prefix advertises valid=%v; start+7s−now lies in [%v,%v]", e.T.Round(time.Millisecond), v, lo, hi), "wrong-remaining"
						}
						if pr > v {
							return fmt.Sprintf("preferred %v exceeds valid %v", pr, v), "preferred-exceeds-valid"
						}
						if v > lastV || pr > lastP {
							return fmt.Sprintf("lifetime increased: valid %v→%v preferred %v→%v", lastV, v, lastP, pr), "increased"
						}
						lastV, lastP = v, pr
						if v == 0 {
							sawZero = true
						}
						_ = pref
					case o.Kind == "route" && o.Prefix == "2001:db8:beef::/48":
						if time.Duration(o.Lifetime) > lastR {
							return fmt.Sprintf("route lifetime increased %v→%v", lastR, time.Duration(o.Lifetime)), "increased"
						}
						lastR = time.Duration(o.Lifetime)
					}
				}
			}
			if !sawZero || lastR != 0 {
				return fmt.Sprintf("after 9 s the deprecated prefix (valid 7s) / route (5s) still advertise valid=%v route=%v", lastV, lastR), "not-zero-after-deadline"
			}
			r.Count("countdown_reached_zero", 1)
			return "", ""
		})
	}

	if prop == "C13" || prop == "C14" || prop == "C15" {
		scen("wildcards-real-kernel", func(id string, lg *rLog, p *probe) (string, string) {
			for _, a := range [][]string{
				{"2001:db8:1::1/64"}, {"2001:db8:1::2/64"}, {"2001:db8:2::1/64", "mngtmpaddr"}, {"fd00:1::5/64"}, {"fd00:2::5/48"},
				{"2001:db8:3::1/64", "preferred_lft", "0"}, {"2001:db8:4::1/128"},
			} {
				args := append([]string{"ip", "-6", "addr", "add", a[0], "dev", "va", "nodad"}, a[1:]...)
				_ = sh(args...)
			}
			for _, rt := range []string{"2001:db8:f000::/48", "2001:db8:f000::/64", "2001:db8:f000:1::/64", "2001:db8:e000::/64", "2001:db8:d000::1/128"} {
				_ = sh("ip", "-6", "route", "add", "unreachable", rt, "dev", "lo")
			}
			cfg := "[[interfaces]]\nname = \"va\"\nadvertise = true\nmax_interval = \"4s\"\n  [[interfaces.prefix]]\n  [[interfaces.route]]\n  [[interfaces.rdnss]]\n"
			d, err := startDaemon(lg, dir, cfg)
			if err != nil {
				return err.Error(), "inconclusive"
			}
			defer d.kill()
			e, ok := lg.waitFor(isRA, -1, 8*time.Second)
			if !ok {
				return "no RA within 8 s: " + lastLines(d.stderr.String(), 6), "inconclusive"
			}
			// independent reading of the kernel state
			out, err := exec.Command("ip", "-j", "-6", "addr", "show", "dev", "va").Output()
			if err != nil {
				return "ip -j failed", "inconclusive"
			}
			var ifs []struct {
				AddrInfo []struct {
					Local         string `json:"local"`
					Prefixlen     int    `json:"prefixlen"`
					Temporary     bool   `json:"temporary"`
					Tentative     bool   `json:"tentative"`
					Deprecated    bool   `json:"deprecated"`
					Mngtmpaddr    bool   `json:"mngtmpaddr"`
					StablePrivacy bool   `json:"stable-privacy"`
					ValidLifeTime uint64 `json:"valid_life_time"`
				} `json:"addr_info"`
			}
			if err := json.Unmarshal(out, &ifs); err != nil || len(ifs) == 0 {
				return "cannot decode ip -j output", "inconclusive"
			}
			var sys []model.SysIP
			for _, a := range ifs[0].AddrInfo {
				ad, err := netip.ParseAddr(a.Local)
				if err != nil {
					continue
				}
				sys = append(sys, model.SysIP{Addr: netip.PrefixFrom(ad, a.Prefixlen), Deprecated: a.Deprecated, ManageTemp: a.Mngtmpaddr, StablePrivacy: a.StablePrivacy,
					Temporary: a.Temporary, Tentative: a.Tentative, ValidForever: a.ValidLifeTime == 4294967295})
			}
			rout, _ := exec.Command("ip", "-j", "-6", "route", "show", "dev", "lo", "table", "main").Output()
			var rts []struct {
				Dst string `json:"dst"`
			}
			_ = json.Unmarshal(rout, &rts)
			var routes []netip.Prefix
			for _, x := range rts {
				if pf, err := netip.ParsePrefix(x.Dst); err == nil {
					routes = append(routes, pf)
				} else if ad, err := netip.ParseAddr(x.Dst); err == nil {
					routes = append(routes, netip.PrefixFrom(ad, 128))
				}
			}
			var gotP, gotR, gotS []string
			for _, o := range e.RA.Options {
				switch o.Kind {
				case "prefix":
					gotP = append(gotP, o.Prefix)
				case "route":
					gotR = append(gotR, o.Prefix)
				case "rdnss":
					gotS = o.Servers
				}
			}
			var wantP, wantR []string
			for _, x := range model.WildPrefixes(sys) {
				wantP = append(wantP, x.String())
			}
			for _, x := range model.WildRoutes(routes) {
				wantR = append(wantR, x.String())
			}
			best, okb := model.WildRDNSS(sys)
			lg.add(rEvent{Kind: "note", Text: fmt.Sprintf("kernel addrs=%v routes=%v; RA prefixes=%v routes=%v rdnss=%v", sys, routes, gotP, gotR, gotS)})
			switch prop {
			case "C13":
				if fmt.Sprint(gotP) != fmt.Sprint(wantP) {
					return fmt.Sprintf("wildcard prefixes on the wire %v, the kernel's address list calls for %v", gotP, wantP), "wildcard-prefix"
				}
			case "C14":
				if !okb || len(gotS) == 0 || gotS[0] != best.String() {
					return fmt.Sprintf("wildcard RDNSS on the wire %v, the ranking over the kernel's address list gives %v", gotS, best), "wildcard-rdnss"
				}
			case "C15":
				if fmt.Sprint(gotR) != fmt.Sprint(wantR) {
					return fmt.Sprintf("wildcard routes on the wire %v, the kernel's loopback routes call for %v", gotR, wantR), "wildcard-route"
				}
			}
			r.Count("real_kernel_expansions_compared", 1)
			return "", ""
		})
	}

	if prop == "C13" || prop == "C14" {
		// One stanza for both ends of the veth pair (`names`), with the wildcards: each
		// interface advertises its OWN networks and picks its OWN address, whichever
		// of the two was initialised last.
		scen("wildcards-names-group", func(id string, lg *rLog, p *probe) (string, string) {
			_ = os.WriteFile("/proc/sys/net/ipv6/conf/vb/forwarding", []byte("1"), 0o644)
			defer os.WriteFile("/proc/sys/net/ipv6/conf/vb/forwarding", []byte("0"), 0o644)
			for _, a := range [][2]string{{"2001:db8:a::1/64", "va"}, {"fd00:a::1/64", "va"}, {"2001:db8:b::1/64", "vb"}, {"2001:db8:bb::1/64", "vb"}} {
				_ = sh("ip", "-6", "addr", "add", a[0], "dev", a[1], "nodad")
			}
			time.Sleep(100 * time.Millisecond)
			p2, err := newProbeOn("va", "ra2", lg)
			if err != nil {
				return "second probe: " + err.Error(), "inconclusive"
			}
			defer p2.c.Close()
			sysA, errA := kernelAddrs("va")
			sysB, errB := kernelAddrs("vb")
			if errA != nil || errB != nil {
				return fmt.Sprintf("ip -j failed: %v %v", errA, errB), "inconclusive"
			}
			ll := func(sys []model.SysIP) string {
				for _, a := range sys {
					if a.Addr.Addr().IsLinkLocalUnicast() {
						return a.Addr.Addr().String()
					}
				}
				return ""
			}
			cfg := "[[interfaces]]\nnames = [\"va\", \"vb\"]\nadvertise = true\nmax_interval = \"4s\"\n  [[interfaces.prefix]]\n  [[interfaces.rdnss]]\n"
			d, err := startDaemon(lg, dir, cfg)
			if err != nil {
				return err.Error(), "inconclusive"
			}
			defer d.kill()
			for _, side := range []struct {
				name, kind string
				sys        []model.SysIP
			}{{"va", "ra", sysA}, {"vb", "ra2", sysB}} {
				src := ll(side.sys)
				// the second RA of each side: both interfaces have been initialised by then
				var seen []rEvent
				ok := false
				for t0 := time.Now(); time.Since(t0) < 12*time.Second; time.Sleep(50 * time.Millisecond) {
					seen = seen[:0]
					for _, e := range lg.snapshot() {
						if e.Kind == side.kind && e.Src == src {
							seen = append(seen, e)
						}
					}
					if len(seen) >= 2 {
						ok = true
						break
					}
				}
				if !ok {
					return fmt.Sprintf("fewer than two RAs from %s (%s) within 12 s: %s", side.name, src, lastLines(d.stderr.String(), 5)), "inconclusive"
				}
				e := seen[len(seen)-1]
				var gotP, gotS []string
				for _, o := range e.RA.Options {
					switch o.Kind {
					case "prefix":
						gotP = append(gotP, o.Prefix)
					case "rdnss":
						gotS = o.Servers
					}
				}
				var wantP []string
				for _, x := range model.WildPrefixes(side.sys) {
					wantP = append(wantP, x.String())
				}
				best, okb := model.WildRDNSS(side.sys)
				lg.add(rEvent{Kind: "note", Text: fmt.Sprintf("%s: kernel addrs=%v; RA prefixes=%v rdnss=%v", side.name, side.sys, gotP, gotS)})
				if prop == "C13" && fmt.Sprint(gotP) != fmt.Sprint(wantP) {
					return fmt.Sprintf("interface %s of a names group advertises the wildcard prefixes %v, its own addresses call for %v", side.name, gotP, wantP), "wildcard-prefix"
				}
				if prop == "C14" && (!okb || len(gotS) == 0 || gotS[0] != best.String()) {
					return fmt.Sprintf("interface %s of a names group advertises the wildcard RDNSS %v, the ranking over its own addresses gives %v", side.name, gotS, best), "wildcard-rdnss"
				}
				r.Count("names_group_expansions_compared", 1)
			}
			return "", ""
		})
	}
}

// kernelAddrs reads the kernel's IPv6 address list of an interface with ip(8),
// independently of CoreRAD's netlink code.
func kernelAddrs(dev string) ([]model.SysIP, error) {
	out, err := exec.Command("ip", "-j", "-6", "addr", "show", "dev", dev).Output()
	if err != nil {
		return nil, err
	}
	var ifs []struct {
		AddrInfo []struct {
			Local         string `json:"local"`
			Prefixlen     int    `json:"prefixlen"`
			Temporary     bool   `json:"temporary"`
			Tentative     bool   `json:"tentative"`
			Deprecated    bool   `json:"deprecated"`
			Mngtmpaddr    bool   `json:"mngtmpaddr"`
			StablePrivacy bool   `json:"stable-privacy"`
			ValidLifeTime uint64 `json:"valid_life_time"`
		} `json:"addr_info"`
	}
	if err := json.Unmarshal(out, &ifs); err != nil || len(ifs) == 0 {
		return nil, fmt.Errorf("cannot decode ip -j output: %v", err)
	}
	var sys []model.SysIP
	for _, a := range ifs[0].AddrInfo {
		ad, err := netip.ParseAddr(a.Local)
		if err != nil {
			continue
		}
		sys = append(sys, model.SysIP{Addr: netip.PrefixFrom(ad, a.Prefixlen), Deprecated: a.Deprecated, ManageTemp: a.Mngtmpaddr, StablePrivacy: a.StablePrivacy,
			Temporary: a.Temporary, Tentative: a.Tentative, ValidForever: a.ValidLifeTime == 4294967295})
	}
	return sys, nil
}

func lastLines(s string, n int) string {
	l := strings.Split(strings.TrimSpace(s), "\n")
	if len(l) > n {
		l = l[len(l)-n:]
	}
	return strings.Join(l, " | ")
}
