//go:build verif

package main

import (
	"encoding/binary"
	"fmt"
	"net"
	"strconv"
	"strings"
	"syscall"
	"time"

	"verif.local/vlib"
)

// sendUnspecRS puts a router solicitation with source address :: on the wire
// from vb (what a host performing duplicate address detection sends): an
// AF_PACKET frame, since no socket API lets a sender choose the unspecified
// source address.
func sendUnspecRS() error {
	ifi, err := net.InterfaceByName("vb")
	if err != nil {
		return err
	}
	htons := func(v uint16) uint16 { return v<<8 | v>>8 }
	fd, err := syscall.Socket(syscall.AF_PACKET, syscall.SOCK_RAW, int(htons(0x86dd)))
	if err != nil {
		return err
	}
	defer syscall.Close(fd)
	dstIP := net.ParseIP("ff02::2").To16()
	icmp := []byte{133, 0, 0, 0, 0, 0, 0, 0}
	// checksum over the pseudo header
	ps := make([]byte, 0, 48)
	ps = append(ps, make([]byte, 16)...) // source ::
	ps = append(ps, dstIP...)
	ps = append(ps, 0, 0, 0, byte(len(icmp)), 0, 0, 0, 58)
	ps = append(ps, icmp...)
	var sum uint32
	for i := 0; i+1 < len(ps); i += 2 {
		sum += uint32(ps[i])<<8 | uint32(ps[i+1])
	}
	for sum>>16 != 0 {
		sum = sum&0xffff + sum>>16
	}
	binary.BigEndian.PutUint16(icmp[2:], ^uint16(sum))
	dmac := []byte{0x33, 0x33, 0, 0, 0, 2}
	fr := append([]byte{}, dmac...)
	fr = append(fr, ifi.HardwareAddr...)
	fr = append(fr, 0x86, 0xdd)
	ip6 := make([]byte, 40)
	ip6[0] = 0x60
	binary.BigEndian.PutUint16(ip6[4:], uint16(len(icmp)))
	ip6[6] = 58
	ip6[7] = 255
	copy(ip6[24:], dstIP)
	fr = append(fr, ip6...)
	fr = append(fr, icmp...)
	sa := &syscall.SockaddrLinklayer{Protocol: htons(0x86dd), Ifindex: ifi.Index, Halen: 6}
	copy(sa.Addr[:], dmac)
	return syscall.Sendto(fd, fr, 0, sa)
}

// metricSum adds up every sample of a metric family whose label set contains
// all the given fragments.
func metricSum(body, family string, frags ...string) (float64, int) {
	var s float64
	n := 0
next:
	for _, l := range strings.Split(body, "\n") {
		if !strings.HasPrefix(l, family+"{") {
			continue
		}
		for _, f := range frags {
			if !strings.Contains(l, f) {
				continue next
			}
		}
		i := strings.LastIndexByte(l, ' ')
		v, err := strconv.ParseFloat(l[i+1:], 64)
		if err == nil {
			s += v
			n++
		}
	}
	return s, n
}

// c07Real: the real daemon on va answers solicitations sent by the real
// neighbour vb.  Verdicts are counts and destinations at quiescent points;
// latencies are only recorded.
func c07Real(r *vlib.Run, dir string, unicastOnly bool) func(id string, lg *rLog, p *probe) (string, string) {
	return func(id string, lg *rLog, p *probe) (string, string) {
		cfg := "[[interfaces]]\nname = \"va\"\nadvertise = true\nmin_interval = \"100s\"\nmax_interval = \"200s\"\n"
		if unicastOnly {
			cfg += "unicast_only = true\n"
		}
		cfg += "  [[interfaces.prefix]]\n  prefix = \"2001:db8::/64\"\n[debug]\naddress = \"127.0.0.1:9430\"\nprometheus = true\n"
		d, err := startDaemon(lg, dir, cfg)
		if err != nil {
			return err.Error(), "inconclusive"
		}
		defer d.kill()
		if _, ok := lg.waitFor(func(e rEvent) bool { return e.Kind == "notify" && e.Text == "READY=1" }, -1, 8*time.Second); !ok {
			return "READY=1 not announced within 8 s: " + lastLines(d.stderr.String(), 5), "inconclusive"
		}
		if !unicastOnly {
			if _, ok := lg.waitFor(isRA, -1, 5*time.Second); !ok {
				return "no initial RA seen within 5 s", "inconclusive"
			}
		}
		time.Sleep(200 * time.Millisecond)
		me := p.ip.WithZone("").String()
		count := func() (uni, multi, other int) {
			for _, e := range lg.snapshot() {
				if e.Kind != "ra" {
					continue
				}
				switch e.Dst {
				case me:
					uni++
				case "ff02::1":
					multi++
				default:
					other++
				}
			}
			return
		}
		sentLL := 0
		sendLL := func() string {
			if err := p.rs(255); err != nil {
				return "cannot send RS: " + err.Error()
			}
			sentLL++
			lg.add(rEvent{Kind: "note", Text: fmt.Sprintf("RS #%d from %s", sentLL, me)})
			return ""
		}
		// waitUni waits until the number of unicast answers reaches want (a late
		// answer is not a violation here), then a further 700 ms for a duplicate.
		waitUni := func(want int) string {
			t0 := time.Now()
			for {
				u, _, _ := count()
				if u >= want {
					break
				}
				if time.Since(t0) > 12*time.Second {
					return fmt.Sprintf("%d solicitations from %s were sent but only %d unicast RAs came back within 12 s", want, me, u)
				}
				time.Sleep(5 * time.Millisecond)
			}
			r.Max("real_unicast_answer_latency_ms", time.Since(t0).Milliseconds())
			time.Sleep(700 * time.Millisecond)
			if u, _, _ := count(); u != want {
				return fmt.Sprintf("%d solicitations from %s were answered by %d unicast RAs", want, me, u)
			}
			return ""
		}
		// one at a time
		for k := 0; k < 3; k++ {
			if v := sendLL(); v != "" {
				return v, "inconclusive"
			}
			if v := waitUni(sentLL); v != "" {
				return v, "rs-answer-count"
			}
		}
		// a burst
		for k := 0; k < 4; k++ {
			if v := sendLL(); v != "" {
				return v, "inconclusive"
			}
		}
		if v := waitUni(sentLL); v != "" {
			return v, "rs-answer-count"
		}
		r.Count("real_unicast_solicitations_answered_once", sentLL)
		// :: solicitations
		_, m0, _ := count()
		unspec := 0
		for k := 0; k < 2; k++ {
			if err := sendUnspecRS(); err != nil {
				return "cannot send the RS from :: (AF_PACKET): " + err.Error(), "inconclusive"
			}
			unspec++
			lg.add(rEvent{Kind: "note", Text: "RS from ::"})
			time.Sleep(40 * time.Millisecond)
		}
		if unicastOnly {
			time.Sleep(1500 * time.Millisecond)
		} else {
			t0 := time.Now()
			for {
				_, m, _ := count()
				if m > m0 {
					break
				}
				if time.Since(t0) > 15*time.Second {
					return "two solicitations from :: were not followed by any all-nodes multicast RA within 15 s", "unspecified-unanswered"
				}
				time.Sleep(10 * time.Millisecond)
			}
			r.Max("real_multicast_answer_latency_ms", time.Since(t0).Milliseconds())
			time.Sleep(800 * time.Millisecond)
			r.Count("real_unspecified_solicitations_answered_multicast", 1)
		}
		if !d.alive() {
			return fmt.Sprintf("the daemon exited (status %d) while answering solicitations: %s", d.code, lastLines(d.stderr.String(), 6)), "crash"
		}
		// counters at a quiescent point
		u1, mc1, o1 := count()
		code, body, err := httpGet("/metrics")
		if err != nil || code != 200 {
			return fmt.Sprintf("/metrics: %v %d", err, code), "inconclusive"
		}
		time.Sleep(150 * time.Millisecond)
		u2, mc2, o2 := count()
		if o2 != 0 {
			return fmt.Sprintf("%d RAs were sent to a destination that is neither the soliciting address nor all-nodes", o2), "destination"
		}
		if u1 != sentLL || u2 != sentLL {
			return fmt.Sprintf("%d solicitations from %s, %d unicast RAs", sentLL, me, u2), "rs-answer-count"
		}
		if unicastOnly && mc2 != 0 {
			return fmt.Sprintf("a unicast-only interface transmitted %d multicast RAs", mc2), "unicast-only-multicast"
		}
		mu, _ := metricSum(body, "corerad_advertiser_router_advertisements_total", `interface="va"`, `type="unicast"`)
		mm, _ := metricSum(body, "corerad_advertiser_router_advertisements_total", `interface="va"`, `type="multicast"`)
		me2, _ := metricSum(body, "corerad_advertiser_errors_total", `interface="va"`)
		mr, _ := metricSum(body, "corerad_advertiser_messages_received_total", `interface="va"`, `solicitation`)
		lg.add(rEvent{Kind: "note", Text: fmt.Sprintf("metrics: unicast=%v multicast=%v errors=%v rs_received=%v; observed on the wire: unicast=%d multicast=%d..%d; sent rs=%d", mu, mm, me2, mr, u2, mc1, mc2, sentLL+unspec)})
		_ = o1
		if int(mu) != sentLL {
			return fmt.Sprintf("sent counter type=unicast is %v, %d unicast RAs were seen on the wire", mu, sentLL), "counter-unicast"
		}
		// The counter covers scheduled transmissions: the one RA sent directly when
		// the connection is set up is not among them.
		initial := 1
		if unicastOnly {
			initial = 0
		}
		if int(mm) < mc1-initial || int(mm) > mc2-initial {
			return fmt.Sprintf("sent counter type=multicast is %v, %d..%d scheduled multicast RAs were seen on the wire (plus the initial one)", mm, mc1-initial, mc2-initial), "counter-multicast"
		}
		if me2 != 0 {
			return fmt.Sprintf("transmit-error counter is %v although every transmission was seen on the wire", me2), "counter-errors"
		}
		if int(mr) != sentLL+unspec {
			return fmt.Sprintf("received counter for router solicitations is %v, %d were sent", mr, sentLL+unspec), "counter-received"
		}
		r.Count("real_counter_comparisons", 4)
		d.signal(syscall.SIGTERM)
		if !d.waitExit(25 * time.Second) {
			return "daemon did not exit within 25 s of SIGTERM", "inconclusive"
		}
		return "", ""
	}
}
