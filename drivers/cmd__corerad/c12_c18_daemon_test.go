//go:build verif

package main

import (
	"fmt"
	"math"
	"net/netip"
	"strings"
	"syscall"
	"time"

	"github.com/mdlayher/ndp"
	"golang.org/x/net/ipv6"
	"verif.local/vlib"
)

func (p *probe) sendRA(ra *ndp.RouterAdvertisement, hop int) error {
	var cm *ipv6.ControlMessage
	if hop != 255 {
		cm = &ipv6.ControlMessage{HopLimit: hop}
	}
	return p.c.WriteTo(ra, cm, netip.IPv6LinkLocalAllNodes())
}

func pfx(s string, valid, pref time.Duration, auto, onlink bool) *ndp.PrefixInformation {
	p := netip.MustParsePrefix(s)
	return &ndp.PrefixInformation{PrefixLength: uint8(p.Bits()), OnLink: onlink, AutonomousAddressConfiguration: auto,
		ValidLifetime: valid, PreferredLifetime: pref, Prefix: p.Addr()}
}

// c18Real: the real daemon monitoring va, real RAs and an RS sent by the real
// neighbour vb.  Every expected value is bracketed by clock readings taken
// before the message was sent and after it was scraped, so no tolerance is
// involved.
func c18Real(r *vlib.Run, dir string) func(id string, lg *rLog, p *probe) (string, string) {
	return func(id string, lg *rLog, p *probe) (string, string) {
		cfg := "[[interfaces]]\nname = \"va\"\nmonitor = true\n[debug]\naddress = \"127.0.0.1:9430\"\nprometheus = true\n"
		d, err := startDaemon(lg, dir, cfg)
		if err != nil {
			return err.Error(), "inconclusive"
		}
		defer d.kill()
		if _, ok := lg.waitFor(func(e rEvent) bool { return e.Kind == "notify" && e.Text == "READY=1" }, -1, 8*time.Second); !ok {
			return "READY=1 not announced within 8 s: " + lastLines(d.stderr.String(), 5), "inconclusive"
		}
		time.Sleep(200 * time.Millisecond)
		host := p.ip.WithZone("").String()
		type step struct {
			name  string
			ra    *ndp.RouterAdvertisement
			hop   int
			rs    bool
			valid bool
		}
		steps := []step{
			{name: "RA default router, two prefixes (one with zero lifetimes)", hop: 255, valid: true, ra: &ndp.RouterAdvertisement{CurrentHopLimit: 64, ManagedConfiguration: true, RouterLifetime: 1800 * time.Second,
				Options: []ndp.Option{pfx("2001:db8:1::/64", time.Hour, 30*time.Minute, true, true), pfx("2001:db8:2::/64", 0, 0, false, true)}}},
			{name: "RS", rs: true, valid: true},
			{name: "RA with hop limit 64 (invalid)", hop: 64, ra: &ndp.RouterAdvertisement{RouterLifetime: 9000 * time.Second, OtherConfiguration: true,
				Options: []ndp.Option{pfx("2001:db8:9::/64", time.Hour, time.Hour, true, true)}}},
			{name: "RA lifetime 0, O flag, prefix withdrawn from preferred use", hop: 255, valid: true, ra: &ndp.RouterAdvertisement{OtherConfiguration: true,
				Options: []ndp.Option{pfx("2001:db8:1::/64", 10*time.Minute, 0, false, false)}}},
			{name: "RA infinite lifetimes", hop: 255, valid: true, ra: &ndp.RouterAdvertisement{RouterLifetime: 65535 * time.Second,
				Options: []ndp.Option{pfx("2001:db8:3::/64", ndp.Infinity, ndp.Infinity, true, true)}}},
		}
		type window struct{ lo, hi float64 } // expected value bracket
		expect := map[string]window{}
		exact := map[string]float64{}
		nRA, nRS, nInv := 0, 0, 0
		for _, s := range steps {
			before := time.Now()
			if s.rs {
				err = p.rs(255)
			} else {
				err = p.sendRA(s.ra, s.hop)
			}
			if err != nil {
				return "cannot send " + s.name + ": " + err.Error(), "inconclusive"
			}
			lg.add(rEvent{Kind: "note", Text: "sent " + s.name})
			time.Sleep(300 * time.Millisecond)
			code, body, err := httpGet("/metrics")
			after := time.Now()
			if err != nil || code != 200 {
				return fmt.Sprintf("/metrics: %v %d", err, code), "inconclusive"
			}
			if !d.alive() {
				return "the daemon died after " + s.name + ": " + lastLines(d.stderr.String(), 5), "crash"
			}
			lab := func(kv ...string) string { return "{" + strings.Join(kv, ",") + "}" }
			router := `router="` + host + `"`
			win := func(l time.Duration) window {
				return window{float64(before.Add(l).Unix()), float64(after.Add(l).Unix())}
			}
			switch {
			case s.rs:
				nRS++
			case !s.valid:
				nInv++
			default:
				nRA++
				exact["corerad_monitor_flag_managed"+lab(`interface="va"`, router)] = b2f(s.ra.ManagedConfiguration)
				exact["corerad_monitor_flag_other"+lab(`interface="va"`, router)] = b2f(s.ra.OtherConfiguration)
				if s.ra.RouterLifetime != 0 {
					expect["corerad_monitor_default_route_expiration_timestamp_seconds"+lab(`interface="va"`, router)] = win(s.ra.RouterLifetime)
				}
				for _, o := range s.ra.Options {
					pi := o.(*ndp.PrefixInformation)
					pl := `prefix="` + netip.PrefixFrom(pi.Prefix, int(pi.PrefixLength)).String() + `"`
					exact["corerad_monitor_prefix_autonomous"+lab(`interface="va"`, pl, router)] = b2f(pi.AutonomousAddressConfiguration)
					exact["corerad_monitor_prefix_on_link"+lab(`interface="va"`, pl, router)] = b2f(pi.OnLink)
					expect["corerad_monitor_prefix_preferred_expiration_timestamp_seconds"+lab(`interface="va"`, pl, router)] = win(pi.PreferredLifetime)
					expect["corerad_monitor_prefix_valid_expiration_timestamp_seconds"+lab(`interface="va"`, pl, router)] = win(pi.ValidLifetime)
				}
			}
			exact[`corerad_monitor_messages_received_total{host="`+host+`",interface="va",message="router advertisement"}`] = float64(nRA)
			exact[`corerad_monitor_messages_received_total{host="`+host+`",interface="va",message="router solicitation"}`] = float64(nRS)
			exact[`corerad_messages_received_invalid_total{interface="va",message="router advertisement"}`] = float64(nInv)
			// compare every monitor series in the scrape with the shadow
			seen := map[string]bool{}
			for _, l := range strings.Split(body, "\n") {
				if !strings.HasPrefix(l, "corerad_monitor_") && !strings.HasPrefix(l, "corerad_messages_received_invalid_total") {
					continue
				}
				i := strings.LastIndexByte(l, ' ')
				key := l[:i]
				var v float64
				fmt.Sscan(l[i+1:], &v)
				seen[key] = true
				if w, ok := exact[key]; ok {
					if v != w {
						return fmt.Sprintf("after %q: %s = %v, want %v", s.name, key, v, w), "series-value"
					}
					continue
				}
				if w, ok := expect[key]; ok {
					if v < w.lo || v > w.hi || v != math.Trunc(v) {
						return fmt.Sprintf("after %q: %s = %.0f, want receipt time + lifetime, i.e. within [%.0f, %.0f]", s.name, key, v, w.lo, w.hi), "series-value"
					}
					// the value is now fixed until the next message that sets it
					expect[key] = window{v, v}
					continue
				}
				return fmt.Sprintf("after %q: unexpected series %s = %v (nothing valid that was received accounts for it)", s.name, key, v), "series-extra"
			}
			for key, w := range exact {
				if !seen[key] && w != 0 {
					return fmt.Sprintf("after %q: series %s is missing, want %v", s.name, key, w), "series-missing"
				}
			}
			for key := range expect {
				if !seen[key] {
					return fmt.Sprintf("after %q: series %s is missing", s.name, key), "series-missing"
				}
			}
			r.Count("real_monitor_series_compared", len(seen))
		}
		d.signal(syscall.SIGTERM)
		if !d.waitExit(25 * time.Second) {
			return "daemon did not exit within 25 s of SIGTERM", "inconclusive"
		}
		return "", ""
	}
}

func b2f(b bool) float64 {
	if b {
		return 1
	}
	return 0
}

// c12Real: the real advertising daemon receives RAs of another "router" on the
// link (vb): consistent ones are not reported, inconsistent ones are reported
// once per differing field, invalid ones are not examined.
func c12Real(r *vlib.Run, dir string) func(id string, lg *rLog, p *probe) (string, string) {
	return func(id string, lg *rLog, p *probe) (string, string) {
		cfg := "[[interfaces]]\nname = \"va\"\nadvertise = true\nmin_interval = \"100s\"\nmax_interval = \"200s\"\nhop_limit = 64\n  [[interfaces.prefix]]\n  prefix = \"2001:db8::/64\"\n  valid_lifetime = \"1h\"\n  preferred_lifetime = \"30m\"\n[debug]\naddress = \"127.0.0.1:9430\"\nprometheus = true\n"
		d, err := startDaemon(lg, dir, cfg)
		if err != nil {
			return err.Error(), "inconclusive"
		}
		defer d.kill()
		if _, ok := lg.waitFor(isRA, -1, 8*time.Second); !ok {
			return "no initial RA within 8 s: " + lastLines(d.stderr.String(), 5), "inconclusive"
		}
		time.Sleep(200 * time.Millisecond)
		type step struct {
			name   string
			ra     *ndp.RouterAdvertisement
			hop    int
			fields []string // fields that differ
		}
		steps := []step{
			// (hop limit 0 = "unspecified" against a configured one is left out: the RFC exempts it, the statement does not say)
			{"consistent (same hop limit and flags, timers unspecified)", &ndp.RouterAdvertisement{CurrentHopLimit: 64, RouterLifetime: 600 * time.Second}, 255, nil},
			{"consistent (same hop limit and prefix lifetimes)", &ndp.RouterAdvertisement{CurrentHopLimit: 64, Options: []ndp.Option{pfx("2001:db8::/64", time.Hour, 30*time.Minute, true, true)}}, 255, nil},
			{"hop limit and M flag differ", &ndp.RouterAdvertisement{CurrentHopLimit: 13, ManagedConfiguration: true}, 255, []string{"hop_limit", "managed_configuration"}},
			{"inconsistent but IPv6 hop limit 64: not examined", &ndp.RouterAdvertisement{CurrentHopLimit: 13, ManagedConfiguration: true}, 64, nil},
			{"same prefix, other valid lifetime", &ndp.RouterAdvertisement{CurrentHopLimit: 64, Options: []ndp.Option{pfx("2001:db8::/64", 2*time.Hour, 30*time.Minute, true, true)}}, 255, []string{"prefix_information_valid_lifetime"}},
			{"a prefix we do not advertise", &ndp.RouterAdvertisement{CurrentHopLimit: 64, Options: []ndp.Option{pfx("2001:db8:77::/64", 2*time.Hour, time.Hour, true, true)}}, 255, nil},
			{"hop limit differs again", &ndp.RouterAdvertisement{CurrentHopLimit: 200}, 255, []string{"hop_limit"}},
		}
		want := map[string]int{}
		reports := 0
		for _, s := range steps {
			if err := p.sendRA(s.ra, s.hop); err != nil {
				return "cannot send RA: " + err.Error(), "inconclusive"
			}
			lg.add(rEvent{Kind: "note", Text: "sent RA: " + s.name})
			time.Sleep(300 * time.Millisecond)
			for _, f := range s.fields {
				want[f]++
			}
			if len(s.fields) > 0 {
				reports++
			}
			code, body, err := httpGet("/metrics")
			if err != nil || code != 200 {
				return fmt.Sprintf("/metrics: %v %d", err, code), "inconclusive"
			}
			got := map[string]int{}
			for _, l := range strings.Split(body, "\n") {
				if !strings.HasPrefix(l, "corerad_advertiser_inconsistencies_total{") {
					continue
				}
				i := strings.Index(l, `field="`)
				j := strings.Index(l[i+7:], `"`)
				var v float64
				fmt.Sscan(l[strings.LastIndexByte(l, ' ')+1:], &v)
				got[l[i+7:i+7+j]] += int(v)
			}
			if fmt.Sprint(got) != fmt.Sprint(want) {
				return fmt.Sprintf("after %q the inconsistency counters by field are %v, RFC 4861 6.2.7 calls for %v", s.name, got, want), "inconsistency-counters"
			}
			if n := strings.Count(d.stderr.String(), "inconsistencies detected in router advertisement"); n != reports {
				return fmt.Sprintf("after %q there are %d inconsistency reports in the log, want %d", s.name, n, reports), "inconsistency-log"
			}
			r.Count("real_inconsistency_comparisons", 1)
		}
		d.signal(syscall.SIGTERM)
		if !d.waitExit(25 * time.Second) {
			return "daemon did not exit within 25 s of SIGTERM", "inconclusive"
		}
		return "", ""
	}
}
