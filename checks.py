# Per-property check table used by ./check and gen_manifest.py.
#
# part keys: name, pkg (directory under the repository), test (Go test function), race, gomaxprocs, gogc_off,
#            shards {tier: n}, tiers [..], tags [...], env {...}, wrap [...], serial, min_evals, timeout_s {tier: s}

S16 = {"quick": 16, "thorough": 16}
S8 = {"quick": 8, "thorough": 16}
S4 = {"quick": 4, "thorough": 16}

CHECKS = {}

CHECKS["C02"] = dict(
    level="exploration",
    technique="runtime monitoring: reference-model oracle over config.Parse on boundary-sweep, interaction-grid, random and byte-mutated documents",
    rule="documents are (a) a seed-independent one-factor boundary sweep of every key, (b) exhaustive small grids of the named "
         "interactions (min×max, default_lifetime×max, every whole-second max, preferred×valid×deprecated, overlap matrices, names×uniqueness, "
         "monitor×advertise, RDNSS server sets), (c) seeded random structured documents and (d) byte-mutated/arbitrary inputs (panic-only oracle); "
         "non-trivial = a sweep/grid document, or a random document on which the specification's verdict is reject or don't-care; "
         "distinct = distinct TOML text",
    exhaustive={"quick": False, "thorough": False},
    assumptions=["time.ParseDuration, netip.ParsePrefix/ParseAddr and the TOML decoder are trusted for *syntax*; the oracle decides semantics",
                 "don't-care regions (DESIGN.md §5 C02) are accepted either way"],
    parts=[dict(name="parse", pkg="internal/config", test="TestVerifC02", shards=S16)],
)

CHECKS["C01"] = dict(
    level="exploration",
    technique="runtime monitoring: independent expected-RA model compared with Interface.RouterAdvertisement over generated accepted configurations × system states × forwarding × clock",
    rule="accepted documents from the C02 sweep/grid sets plus seeded random valid documents; for each advertising interface 2 (quick) / 4 (thorough) "
         "system states (address list with flags, loopback routes, MAC or none, source failures, clock offset) × forwarding on/off × 2–3 rebuilds; the expected RA is "
         "computed from the abstract document, never from the parser output; non-trivial = interface with ≥3 option kinds or a wildcard stanza; distinct = TOML text + interface",
    assumptions=["system state is injected through the plugins' exported Addrs/Routes/TimeNow/Addr fields (as the repository's own tests do); Prepare against a real kernel is covered by C13–C15 tier R",
                 "for a fractional-second max_interval the PREF64 lifetime may use floor(max) or the exact product (statement is silent)"],
    parts=[dict(name="ra", pkg="internal/config", test="TestVerifC01", shards=S16)],
)

CHECKS["C03"] = dict(
    level="exploration",
    technique="runtime monitoring: wire round-trip monitor (MarshalMessage/ParseMessage) with per-field range oracle over everything the real parser accepts",
    rule="C02 sweep/grid documents plus seeded 'hazard' documents (valid documents with 1–2 duration keys replaced by negative, sub-second, 2^32 s ± 1, 2562047h, infinite values "
         "and pref64 prefixes of every length/family); every document the *real* parser accepts is expanded against 2 system states; non-trivial = some duration within one unit of a field "
         "limit (or below two units) or a non-default pref64 prefix; distinct = TOML text + interface",
    assumptions=["mdlayher/ndp MarshalMessage/ParseMessage are the wire codec", "DNS names well-formed, ≤3 names/servers per option (the statement's domain)"],
    parts=[dict(name="wire", pkg="internal/config", test="TestVerifC03", shards=S16)],
)
