# Per-property check table used by ./check and gen_manifest.py.
#
# part keys: name, pkg (directory under the repository), test (Go test function), race, gomaxprocs, gogc_off,
#            shards {tier: n}, tiers [..], tags [...], env {...}, wrap [...], serial, min_evals, timeout_s {tier: s}

NETNS = ["$VERIF/tools/netns.sh"]
S16 = {"quick": 16, "thorough": 16}
S8 = {"quick": 8, "thorough": 16}
S4 = {"quick": 4, "thorough": 16}

CHECKS = {}

CHECKS["C02"] = dict(
    level="exploration",
    technique="runtime monitoring: reference-model oracle over config.Parse on boundary-sweep, interaction-grid, random and byte-mutated documents",
    rule="documents are (a) a seed-independent one-factor boundary sweep of every key, (b) exhaustive small grids of the named "
         "interactions (min×max, default_lifetime×max, every whole-second max, preferred×valid×deprecated, overlap matrices, names×uniqueness, "
         "monitor×advertise, RDNSS server sets), (c) seeded random structured documents and (d) byte-mutated/arbitrary inputs (panic-only oracle); "
         "non-trivial = a sweep/grid document, or a random document on which the specification's verdict is reject or don't-care; "
         "distinct = distinct TOML text",
    exhaustive={"quick": False, "thorough": False},
    assumptions=["time.ParseDuration, netip.ParsePrefix/ParseAddr and the TOML decoder are trusted for *syntax*; the oracle decides semantics",
                 "don't-care regions (DESIGN.md §5 C02) are accepted either way"],
    parts=[dict(name="parse", pkg="internal/config", test="TestVerifC02", shards=S16)],
)

CHECKS["C01"] = dict(
    level="exploration",
    technique="runtime monitoring: independent expected-RA model compared with Interface.RouterAdvertisement over generated accepted configurations × system states × forwarding × clock",
    rule="accepted documents from the C02 sweep/grid sets plus seeded random valid documents; for each advertising interface 2 (quick) / 4 (thorough) "
         "system states (address list with flags, loopback routes, MAC or none, source failures, clock offset) × forwarding on/off × 2–3 rebuilds; the expected RA is "
         "computed from the abstract document, never from the parser output; non-trivial = interface with ≥3 option kinds or a wildcard stanza; distinct = TOML text + interface",
    assumptions=["system state is injected through the plugins' exported Addrs/Routes/TimeNow/Addr fields (as the repository's own tests do); Prepare against a real kernel is covered by C13–C15 tier R",
                 "for a fractional-second max_interval the PREF64 lifetime may use floor(max) or the exact product (statement is silent)"],
    parts=[dict(name="ra", pkg="internal/config", test="TestVerifC01", shards=S16)],
)

CHECKS["C03"] = dict(
    level="exploration",
    technique="runtime monitoring: wire round-trip monitor (MarshalMessage/ParseMessage) with per-field range oracle over everything the real parser accepts",
    rule="C02 sweep/grid documents plus seeded 'hazard' documents (valid documents with 1–2 duration keys replaced by negative, sub-second, 2^32 s ± 1, 2562047h, infinite values "
         "and pref64 prefixes of every length/family); every document the *real* parser accepts is expanded against 2 system states; non-trivial = some duration within one unit of a field "
         "limit (or below two units) or a non-default pref64 prefix; distinct = TOML text + interface",
    assumptions=["mdlayher/ndp MarshalMessage/ParseMessage are the wire codec", "DNS names well-formed, ≤3 names/servers per option (the statement's domain)"],
    parts=[dict(name="wire", pkg="internal/config", test="TestVerifC03", shards=S16)],
)

CHECKS["C13"] = dict(
    level="exploration",
    technique="runtime monitoring: set-semantics reference model vs Prefix.Apply over bounded-exhaustive permutations of an address pool plus random lists",
    rule="all ordered selections of ≤4 addresses from a 14-address pool (ULA/GUA/LL/IPv4, /48 /64 /128, each flag, two hosts per /64), each also with a duplicated entry, "
         "plus seeded random lists of 1–40 addresses and the failing-source case; non-trivial = list of ≥2 addresses; distinct = the ordered list",
    exhaustive={"quick": True, "thorough": True},
    assumptions=["addresses are injected through Prefix.Addrs; the rtnetlink decoding of flags is exercised by tier R (thorough)"],
    parts=[dict(name="prefix", pkg="internal/plugin", test="TestVerifC13", shards=S8)],
)
CHECKS["C14"] = dict(
    level="exploration",
    technique="runtime monitoring: total-order reference model (min of eligible set) vs RDNSS.Apply over bounded-exhaustive permutations plus random lists",
    rule="all ordered selections of ≤4 addresses from a 16-address pool covering class × stability source × exclusion flag, each also with a duplicate, "
         "× 4 static server lists, plus random lists of 1–40 addresses; non-trivial = ≥2 addresses; distinct = ordered list",
    exhaustive={"quick": True, "thorough": True},
    assumptions=["a static server equal to the picked address is kept out of the workload (don't-care)"],
    parts=[dict(name="rdnss", pkg="internal/plugin", test="TestVerifC14", shards=S8)],
)
CHECKS["C15"] = dict(
    level="exploration",
    technique="runtime monitoring: maximal-non-overlapping-set reference model vs Route.Apply over bounded-exhaustive permutations plus random dumps",
    rule="all ordered selections of ≤4 routes from a 16-route pool (nested prefixes with equal and different base addresses, /128s, ::/0, IPv4), each also with a duplicate, "
         "plus random dumps of 1–30 routes; non-trivial = ≥2 routes; distinct = ordered list",
    exhaustive={"quick": True, "thorough": True},
    assumptions=["routes are injected through Route.Routes"],
    parts=[dict(name="route", pkg="internal/plugin", test="TestVerifC15", shards=S8)],
)
CHECKS["C16"] = dict(
    level="exploration",
    technique="runtime monitoring: closed-form oracle remaining(t)=max(0,epoch+L−t) and monotonicity monitor over scripted non-decreasing clock sequences",
    rule="seeded tuples (epoch, valid, preferred≤valid, route lifetime, deprecated) each observed along a sorted sequence of ≥15 clock readings placed 1 ns before, at and 1 ns after every deadline, "
         "before the epoch, at it and 200 years later, with repeated readings; non-trivial = deprecated tuple whose sequence showed both a positive and a zero lifetime; distinct = the tuple",
    assumptions=["the clock is injected through TimeNow; that Parse hands the epoch to the plugins is checked by C02; that main passes time.Now() is covered by tier R"],
    parts=[dict(name="countdown", pkg="internal/plugin", test="TestVerifC16", shards=S8),
           dict(name="prepare", pkg="internal/plugin", test="TestVerifC16Prepare", shards={"quick": 2, "thorough": 2}),
           dict(name="transmit", pkg="internal/corerad", test="TestVerifC06", shards={"quick": 8, "thorough": 8}, gomaxprocs=1, gogc_off=True, env={"VERIF_PROP": "C16", "VERIF_PART": "det"})],
)

CHECKS["C12"] = dict(
    level="exploration",
    technique="runtime monitoring: RFC 4861 §6.2.7 reference oracle vs verifyRAs over an exhaustive pairwise aspect grid and random RA pairs, received side always wire-decoded; trace monitor on a running advertiser",
    rule="(1) 20 aspects (header fields and one option each) with values {absent, A, B} on both sides, every aspect alone (3×3) and crossed pairwise with every other aspect (81 combinations per pair) — exhaustive and "
         "seed-independent; (2) seeded random RAs with 0–4 options of each kind, duplicates, a second MTU, unknown options, in both orders; (3) every random RA against its own wire round trip; the received RA is always "
         "passed through MarshalMessage/ParseMessage; non-trivial = the specification expects ≥1 problem; distinct = pair identity",
    exhaustive={"quick": False, "thorough": False},
    assumptions=["field/details label vocabulary is taken from the implementation's metric labels", "hop limit 0 on either side is a don't-care region (RFC exempts it, the statement does not)"],
    parts=[dict(name="verify", pkg="internal/corerad", test="TestVerifC12", shards=S16),
           dict(name="handle", pkg="internal/corerad", test="TestVerifC12Handle", shards=S16, env={"VERIF_PART": "handle"}, gomaxprocs=1, gogc_off=True)],
)

DET = dict(gomaxprocs=1, gogc_off=True)

CHECKS["C06"] = dict(
    level="exploration",
    technique="runtime monitoring: virtual-time (testing/synctest) trace monitor of the real Advertiser behind a fake socket; spacing and bounded-response oracles over bounded-exhaustive trigger histories; race detector pass",
    rule="histories of router solicitations (from :: = multicast trigger, or from a unicast source) injected at exact virtual instants into the real Advertiser; deterministic pass: all histories of ≤3 events (quick) on the 9-point grid of offsets {0,1ms,1.5s,3s−1ms,3s,3s+1ms,4.5s,6s,6s+1ms} from the previous event "
         "(thorough: ≤5 events on that grid and ≤6 events on the 5-point grid {0,1ms,3s−1ms,3s,3s+1ms}, ≈6 million histories), anchored at the initial RA and at the 16 s periodic tick, plus seeded random bursts of 5–60 events in both periodic regimes with a "
         "re-initialisation inside 1/4 of them; parallel pass (GOMAXPROCS 4, -race): random histories, schedule-insensitive oracles only; non-trivial = two triggers <3 s apart or a trigger <3 s after a transmission; distinct = history",
    exhaustive={"quick": True, "thorough": True},
    assumptions=["testing/synctest fake clock (GODEBUG=asynctimerchan=0); zero injected latency, so the oracle needs no tolerance",
                 "periodic tick instants are known by configuration (min>16s ⇒ 0/16/32/48 s; min=max ⇒ every max s)",
                 "timing oracles are asserted only at GOMAXPROCS=1 because the dependency mdlayher/schedgroup v1.0.0 has a lost wake-up under real parallelism (DESIGN.md K1)"],
    parts=[
        dict(name="det", pkg="internal/corerad", test="TestVerifC06", shards=S16, env={"VERIF_PART": "det"}, **DET),
        dict(name="race", pkg="internal/corerad", test="TestVerifC06", race=True, shards=S4, gomaxprocs=4, env={"VERIF_PART": "race", "VERIF_TIMING": "0"}),
    ],
)

def vparts(test, det_part="det", race_shards=None, extra_env=None):
    e1 = {"VERIF_PART": det_part}
    e2 = {"VERIF_PART": "race", "VERIF_TIMING": "0"}
    if extra_env:
        e1.update(extra_env); e2.update(extra_env)
    return [
        dict(name=det_part, pkg="internal/corerad", test=test, shards=S16, env=e1, **DET),
        dict(name="race", pkg="internal/corerad", test=test, race=True, shards=race_shards or S4, gomaxprocs=4, env=e2),
    ]

VT = ["testing/synctest fake clock (GODEBUG=asynctimerchan=0); fakes at system.Conn / system.State / Dialer.DialFunc / log writer; static-only configurations (wildcards need a kernel: tier R)",
      "exact timing oracles are asserted only in the deterministic pass (GOMAXPROCS=1, GOGC=off); the -race pass (GOMAXPROCS=4) asserts schedule-insensitive oracles only, because the dependency schedgroup v1.0.0 has a lost wake-up under parallelism (DESIGN.md K1)"]

CHECKS["C07"] = dict(
    level="exploration",
    technique="runtime monitoring: virtual-time trace monitor of the real Advertiser; exactly-once matching of unicast answers to solicitations, destination and delay oracle, counter-conservation check; race detector pass",
    rule="seeded histories of 5–40 router solicitations from unique link-local, unique global, repeated and unspecified sources, with/without SLLA, Poisson and burst arrivals (≥17 in one instant), interleaved with periodic RAs in "
         "two tick regimes, unicast_only in 1/3, a failing transmission in 1/8; every unicast RA must match one pending solicitation from its destination within [0,500ms); counters are compared with the trace after Run returned; "
         "non-trivial = every history (all contain ≥5 solicitations); distinct = history id (seeded)",
    assumptions=VT + ["the extremes 0 and 499.999999 ms of the random delay cannot be forced from the boundary; observed min/max delays are reported"],
    parts=vparts("TestVerifC07"),
)
CHECKS["C08"] = dict(
    level="exploration",
    technique="runtime monitoring: virtual-time trace monitor of Advertiser shutdown with the stop request placed inside in-flight operations through seam hooks; final-RA-last / none-on-reload / silent-after-return oracles; race detector pass",
    rule="stop instants in six classes — inside the 3 s minimum-spacing wait of a multicast RA held back behind a late (stalled) transmission, idle, response pending in its delay, transmission in flight (stop request issued from inside the worker's State read or socket write, 1–5 ms latencies), periodic transmission in flight at the 16 s tick, "
         "solicitation in the same instant as the request — × terminate/reload × unicast_only (1/8); the class is confirmed from the trace; non-trivial = trace class other than idle; distinct = scenario id (seeded)",
    assumptions=VT + ["configurations with default_lifetime 0 or forwarding off are excluded from the final-RA clauses (every RA has lifetime 0 there)"],
    parts=vparts("TestVerifC08"),
    require_counters={"quick": {"class_in-flight": 20, "class_pending": 20, "class_concurrent-rs": 10, "class_spacing-wait": 10}, "thorough": {"class_in-flight": 200}},
)
CHECKS["C09"] = dict(
    level="exploration",
    technique="runtime monitoring: virtual-time trace monitor of the real Advertiser and Monitor fed scripted invalid/valid message sequences; invalid-counter, no-side-effect and continued-service oracles; race detector pass",
    rule="exhaustive hop limit 0…255 × {RS, RA, NS, NA} × source {link-local, ::, global} single-message scenarios each followed by a valid RS; runs of k=1…12 consecutive invalid messages (retry budget is 5) in 6 mixes; seeded random sequences mixing valid RS/RA, invalid "
         "messages and ≤3 consecutive read time-outs; same for the monitor (part mon); non-trivial = ≥1 invalid message delivered; distinct = scenario id",
    exhaustive={"quick": True, "thorough": True},
    assumptions=VT,
    parts=vparts("TestVerifC09"),
)
CHECKS["C10"] = dict(
    level="fault_enumeration",
    technique="runtime monitoring with fault injection: (a) every dial/task outcome sequence to depth 4/6 through the real Dialer.Dial checked against a policy automaton in virtual time; (b) faults injected into a running Advertiser/Monitor with teardown, recovery and half-alive oracles; race detector pass",
    rule="(policy) all sequences over dial outcomes {ok, link-not-ready, syscall, permission, other} and task outcomes {nil, link-change, syscall, permission, timeout-exhaustion, other, cancelled} that respect the grammar, length ≤4 (quick) / ≤6 (thorough), "
         "× cancellation points, plus the 50-attempt exhaustion path and random sequences ≤60; (task) faults {read syscall/permission/other, 1…6 consecutive receive time-outs, write nobufs/permission/other, link event, watcher close} × unicast_only × latency × "
         "seeded instants, for advertiser and monitor; non-trivial = sequence with ≥1 failure outcome / every injected fault; distinct = sequence or scenario id",
    exhaustive={"quick": True, "thorough": True},
    assumptions=VT + ["a transmit error on the initial RA of a generation may either end the task or re-dial (don't-care; teardown is still checked)"],
    parts=[
        dict(name="task", pkg="internal/corerad", test="TestVerifC10", shards=S16, env={"VERIF_PART": "task"}, **DET),
        dict(name="race", pkg="internal/corerad", test="TestVerifC10", race=True, shards=S4, gomaxprocs=4, env={"VERIF_PART": "race", "VERIF_TIMING": "0"}),
    ],
)
CHECKS["C10"]["parts"].insert(0, dict(name="policy", pkg="internal/system", test="TestVerifDial", shards=S16, env={"VERIF_PROP": "C10"}, **DET))

CHECKS["C11"] = dict(
    level="fault_enumeration",
    technique="runtime monitoring with fault injection: open/cleanup/autoconf event monitor over the real Dialer.Dial + setAutoconf under enumerated dial/task/sysctl-fault scripts (virtual time), and the real dial() with real sockets and sysctls in a private network namespace",
    rule="(inproc) the C10 script enumeration × initial autoconf {0,1} plus get/set/restore faults {none, permission, not-exist, other} on the first and second connection × task outcomes, and random scripts with random fault plans; "
         "(netns) the real Dialer.dial in `unshare -n` with a veth pair, faults injected by a State wrapper, sockets/multicast membership/sysctl sampled from /proc at quiescent points; non-trivial = script with ≥1 failure or sysctl fault; distinct = script id",
    exhaustive={"quick": True, "thorough": True},
    assumptions=["in-process part: DialFunc mimics dial() around the real setAutoconf and the real Dial loop; the real dial() runs only in the netns part",
                 "failing setsockopt/join inside dialNDP cannot be injected (DESIGN.md §6)"],
    parts=[dict(name="inproc", pkg="internal/system", test="TestVerifDial", shards=S16, env={"VERIF_PROP": "C11"}, **DET)],
)

CHECKS["C05"] = dict(
    level="exploration",
    technique="runtime monitoring: bound oracle on multicastDelay with a scripted rand.Source (forced extreme draws) exhaustively over every accepted whole-second (min,max); virtual-time trace monitor of the real periodic loop",
    rule="(pure) every whole-second pair the configuration accepts (max 4…1800 s × min 3…⌊0.75·max⌋, plus min=max for max<9 s) × advertisement indices {0,1,2,3,4,50} × draws {0, range−1, range/2, range/3, random} forced through a scripted rand.Source, "
         "plus seeded fractional pairs; (loop) the real Advertiser run for 10·max virtual seconds in configurations with min ≥ 6 s, where every wait equals the gap between consecutive multicast transmissions; "
         "non-trivial = every max value (all include extreme draws and indices 2/3) and every loop run; distinct = max value / pair / run id",
    exhaustive={"quick": True, "thorough": True},
    assumptions=["'forever' is restated as: still requesting after 10·max virtual seconds and within max of the stop instant", "loop part needs min ≥ 6 s so that request instants are observable as transmission instants"],
    parts=[dict(name="pure", pkg="internal/corerad", test="TestVerifC05", shards=S16, env={"VERIF_PART": "pure"}),
           dict(name="loop", pkg="internal/corerad", test="TestVerifC05", shards=S16, env={"VERIF_PART": "loop"}, **DET)],
)

CHECKS["C04"] = dict(
    level="exploration",
    technique="runtime monitoring: virtual-time trace monitor of 1–3 real Advertisers sharing one State/registry/API handler, forwarding flipped at quiescent points; epoch-valued expected-RA oracle on all seven RA paths; race detector pass",
    rule="readfault family: {auto, explicit} lifetime × 1/2/all failing forwarding reads after a flip to off × {solicited, periodic, peer RA, solicited+periodic} × 0–2 earlier generations × 3 error kinds; seeded scenarios: default_lifetime {0, auto, explicit} × 1–3 interfaces × initial forwarding × 1–6 flips (each at a quiescent point, on a random interface) interleaved with 1–5 triggers per epoch of the paths "
         "{solicited, periodic, consistency check via a peer RA, metrics scrape, debug API}, plus the initial and final RA; each generated RA is compared with the expected RA for the epoch's forwarding value, and per epoch the "
         "log lines, forwarding reads and misconfiguration sample are counted; non-trivial = every scenario (≥1 flip); distinct = scenario id (seeded)",
    assumptions=VT + ["flips happen only when every goroutine is durably blocked, so each RA generation falls in exactly one epoch"],
    parts=vparts("TestVerifC04", race_shards={"quick": 4, "thorough": 8}),
)

CHECKS["C18"] = dict(
    level="exploration",
    technique="runtime monitoring: shadow-model monitor of the in-memory metric series of the real Monitor after every delivered message, in virtual time (receipt time = fake clock); race detector pass",
    rule="seeded sequences of 20–60 messages from 5 sender spellings (with and without zones): RAs with random header values, 0–4 prefix options (duplicates, /0…/128, lifetimes 0, 1 s, 4 h, 24 h, infinite), route/MTU/RDNSS/unknown options, "
         "RS/NS/NA, with clock steps from 0 ns to 400 days between messages; after each message every monitor series is compared with a shadow map updated by the specification; non-trivial = every sequence; distinct = sequence seed",
    assumptions=VT[:1] + ["the in-memory metricslite backend is the observation point; label vocabulary is the implementation's"],
    parts=[dict(name="mon", pkg="internal/corerad", test="TestVerifC18", shards=S16, env={"VERIF_PART": "mon", "VERIF_PROP": "C18"}, **DET),
           dict(name="race", pkg="internal/corerad", test="TestVerifC18", race=True, shards=S4, gomaxprocs=4, env={"VERIF_PART": "race", "VERIF_PROP": "C18"})],
)
CHECKS["C09"]["parts"].append(dict(name="mon", pkg="internal/corerad", test="TestVerifC18", shards=S8, env={"VERIF_PART": "mon", "VERIF_PROP": "C09"}, **DET))

CHECKS["C19"] = dict(
    level="exploration",
    technique="runtime monitoring: FIFO-of-8 reference model over the real Watcher (exhaustive single events, random sequences, inside synctest bubbles so a blocking notify is a detected deadlock) and porcupine linearizability checking of concurrent Subscribe/notify/Recv/end histories under the race detector",
    rule="(seq) exhaustive singles: 127 masks × 7 changes × {same, other} interface; seeded sequences of 1–20 changes (1–3 per notify call, 3 interfaces) × 1–5 subscribers (random masks, identical subscriptions) with partial drains, checked against a FIFO of capacity 8 per subscriber, "
         "every channel closed exactly once at end of watch; operstate mapping through process(); (lin) seeded concurrent histories: 2–4 subscriber goroutines (Subscribe then 4–11 non-blocking receives) racing one watch goroutine (6–19 single-change notifies, then end of watch), "
         "recorded with one atomic clock and checked per subscriber with porcupine; non-trivial = every mask / sequence / history; distinct = mask, or seed",
    exhaustive={"quick": True, "thorough": True},
    assumptions=["Watcher.watch is replaced by a scripted function (as the repository's own tests do); the rtnetlink socket path is not exercised", "a Subscribe linearised after end-of-watch yields a channel that is never closed (the statement does not cover it; the model allows it)"],
    parts=[dict(name="seq", pkg="internal/netstate", test="TestVerifC19", shards=S8, env={"VERIF_PART": "seq"}),
           dict(name="lin", pkg="internal/netstate", test="TestVerifC19", race=True, shards=S8, gomaxprocs=8, env={"VERIF_PART": "lin"}),
           dict(name="oswatch", pkg="internal/netstate", test="TestVerifC19Netns", race=True, shards={"quick": 2, "thorough": 4}, wrap=NETNS, min_evals=0, timeout_s={"quick": 240, "thorough": 900})],
)

CHECKS["C20"] = dict(
    level="exploration",
    technique="runtime monitoring: event-order monitor of the real Server.Serve supervising scripted tasks with real signals values, gates and a real unixgram notify socket; exhaustive BuildTasks comparison; race detector pass",
    rule="(build) every mix of {advertise, monitor, neither} over 0–3 interfaces × debug on/off (exhaustive, 80 configurations) plus seeded mixes of 4–6 interfaces: task list compared by String(); "
         "(serve) seeded scenarios of 1–5 scripted tasks with behaviours {runs until cancelled, fails on trigger, returns nil early, slow to stop (gated), ready now / gated / never} × stimulus {signal, failure, failure then signal, signal then failure} × {INT, TERM, HUP}; "
         "oracles are orders in one event log (never wall-clock thresholds); non-trivial = every configuration/scenario; distinct = id",
    exhaustive={"quick": True, "thorough": True},
    assumptions=["real-time sleeps (10–20 ms) only increase detection power for 'too early' events; absence of an expected READY=1 within 3 s is inconclusive, not a violation",
                 "the terminate flag is read through Server.t.terminate (the function BuildTasks hands to advertisers)"],
    parts=[dict(name="build", pkg="internal/corerad", test="TestVerifC20", shards=S4, env={"VERIF_PART": "build"}),
           dict(name="serve", pkg="internal/corerad", test="TestVerifC20", shards=S16, env={"VERIF_PART": "serve"}),
           dict(name="race", pkg="internal/corerad", test="TestVerifC20", race=True, shards=S4, env={"VERIF_PART": "race"}),
           dict(name="http", pkg="internal/corerad", test="TestVerifC20HTTP", race=True, shards={"quick": 5, "thorough": 10}, timeout_s={"quick": 300, "thorough": 1200})],
)

CHECKS["C17"] = dict(
    level="exploration",
    technique="runtime monitoring: metrics registry and debug API wired exactly as main.go, observed at four lifecycle points of a real Advertiser in virtual time and compared with the expected RA; child-process crash attribution for collector panics; race detector on concurrent scrapes during (re)initialisation",
    rule="seeded accepted configurations covering every stanza kind (prefix/route/RDNSS/DNSSL/MTU/SLLA/captive portal/PREF64, static, wildcard and deprecated, pairwise distinct label identities) × forwarding on/off × debug.prometheus/pprof; each is observed "
         "(Gather, GET /_/api/interfaces, /metrics, /debug/pprof/) when never initialised, while the first dial is held open, when initialised (after a random clock step ≤3 h; 1/10 also with the forwarding state unreadable) and while a re-dial after a link event is held; "
         "static configurations are compared with the model's expected RA, wildcard ones (served from the loopback interface's real kernel state) with the RA the advertiser last transmitted; race part: 4 goroutines scraping while the advertiser re-initialises 50 times; "
         "non-trivial = every configuration; distinct = TOML text",
    assumptions=VT[:1] + ["before initialisation an error for the scrape/request is accepted (statement), and the expected RA has no source link-layer address",
                            "wildcard configurations after initialisation depend on the sandbox's loopback addresses; if initialisation fails there the case is skipped and counted"],
    parts=[dict(name="life", pkg="internal/corerad", test="TestVerifC17", shards=S16, env={"VERIF_PART": "life"}, **DET),
           dict(name="race", pkg="internal/corerad", test="TestVerifC17", race=True, shards=S8, gomaxprocs=4, env={"VERIF_PART": "race"}),
           dict(name="lock", pkg="internal/corerad", test="TestVerifC17Lock", race=True, shards=S8, gomaxprocs=4, timeout_s={"quick": 600, "thorough": 3600})],
)
CHECKS["C11"]["parts"].append(dict(name="netns", pkg="internal/system", test="TestVerifC11Netns", shards={"quick": 4, "thorough": 8}, wrap=NETNS, gogc_off=True,
                                   env={"VERIF_IN_NETNS_EXPECTED": "1"}, timeout_s={"quick": 300, "thorough": 1800}))

CHECKS["C11"]["require_counters"] = {"quick": {"listen_failed_on_tentative_address": 2}, "thorough": {"listen_failed_on_tentative_address": 4}}

def daemon_part(prop, shards):
    return dict(name="daemon", pkg="cmd/corerad", test="TestVerifDaemon", shards={"quick": shards, "thorough": shards}, wrap=NETNS, min_evals=0,
                env={"VERIF_PROP": prop}, timeout_s={"quick": 240, "thorough": 600})

for _p in ("C13", "C15"):
    CHECKS[_p]["parts"].append(dict(name="addresser", pkg="internal/system", test="TestVerifAddresser", shards={"quick": 1, "thorough": 1}, env={"VERIF_PROP": _p}))

CHECKS["C05"]["parts"].append(dict(name="race", pkg="internal/corerad", test="TestVerifC05", race=True, shards={"quick": 4, "thorough": 16}, env={"VERIF_PART": "race", "VERIF_TIMING": "0"}))
CHECKS["C01"]["parts"].append(dict(name="concurrent", pkg="internal/config", test="TestVerifC01Concurrent", race=True, shards={"quick": 4, "thorough": 8}))

for _p in ("C13", "C14", "C15"):
    CHECKS[_p]["parts"].append(dict(name="concurrent", pkg="internal/plugin", test="TestVerifWildConcurrent", race=True, shards={"quick": 4, "thorough": 8}, env={"VERIF_PROP": _p}))

for _p in ("C13", "C14"):
    CHECKS[_p]["parts"].append(dict(name="prepare", pkg="internal/plugin", test="TestVerifPrepareNetns", shards={"quick": 1, "thorough": 1}, wrap=NETNS, min_evals=0,
                                    env={"VERIF_PROP": _p}, timeout_s={"quick": 240, "thorough": 600}))

for _p, _n in (("C08", 6), ("C20", 6), ("C04", 1), ("C17", 1), ("C09", 1), ("C13", 1), ("C14", 1), ("C15", 1), ("C16", 1), ("C05", 1), ("C06", 1), ("C07", 2), ("C12", 1), ("C18", 1)):
    CHECKS[_p]["parts"].append(daemon_part(_p, _n))
    CHECKS[_p]["assumptions"] = list(CHECKS[_p].get("assumptions", [])) + ["tier R: the real daemon (this test binary re-executed as corerad) in `unshare -n` with a veth pair, observed from a probe socket on the peer; only order/count/value oracles; a namespace that cannot be created is inconclusive"]
