#!/usr/bin/env python3
"""tools/driver_closure.py : recomputes /verif/driver_files.json, the driver files each property's test
binary is built from (per package): the files that define its test functions plus whatever `go vet`
reports as undefined, to a fixed point.  ./check overlays only those files, so that a driver which no
longer builds against a refactored tree breaks its own check and no other.  Run after adding or moving
driver code; needs .build/<prop>/go.mod to exist (run the checks once first)."""
import json,os,re,subprocess,sys
sys.path.insert(0,'/verif')
from checks import CHECKS
V='/verif'; REPO='/repo'
env=dict(os.environ,GOFLAGS='-mod=mod',GOPROXY='off',GOSUMDB='off',GOTOOLCHAIN='local')
def defs(pkgdir):
    d={}
    for fn in os.listdir(pkgdir):
        if not fn.endswith('.go'): continue
        src=open(os.path.join(pkgdir,fn)).read()
        for m in re.finditer(r'^(?:func (?:\([^)]*\) )?(\w+)|type (\w+)|var (\w+)|const (\w+))',src,re.M):
            name=next(g for g in m.groups() if g)
            d.setdefault(name,set()).add(fn)
        # grouped var/const blocks
        for blk in re.finditer(r'^(?:var|const) \((.*?)^\)',src,re.M|re.S):
            for m in re.finditer(r'^\t(\w+)',blk.group(1),re.M):
                d.setdefault(m.group(1),set()).add(fn)
    return d
out={}
for prop,spec in sorted(CHECKS.items()):
    bypkg={}
    for p in spec['parts']:
        bypkg.setdefault(p['pkg'],set()).add(p['test'])
    for pkg,tests in bypkg.items():
        pdir=os.path.join(V,'drivers',pkg.replace('/','__'))
        allf=sorted(f for f in os.listdir(pdir) if f.endswith('.go'))
        D=defs(pdir)
        cur=set()
        for t in tests:
            cur|=D.get(t,set())
        for it in range(20):
            d=os.path.join(V,'.build',prop)
            os.makedirs(d,exist_ok=True)
            replace={os.path.join(REPO,pkg,'zz_verif_'+f):os.path.join(pdir,f) for f in cur}
            ov='/tmp/closure-ov.json'; json.dump({'Replace':replace},open(ov,'w'))
            r=subprocess.run(['go1.26.8','vet','-tags','verif','-modfile',os.path.join(d,'go.mod'),'-overlay',ov,'./'+pkg],cwd=REPO,env=env,capture_output=True,text=True)
            und=set(re.findall(r'undefined: (\w+)',r.stderr))
            add=set()
            for u in und:
                add|=D.get(u,set())
            add-=cur
            if not add: 
                if und: print('UNRESOLVED',prop,pkg,und, file=sys.stderr)
                break
            cur|=add
        out.setdefault(pkg,{})[prop]=sorted(cur)
        print(prop,pkg,len(cur),'/',len(allf),sorted(cur))
json.dump(out,open(os.path.join(V,'driver_files.json'),'w'),indent=1,sort_keys=True)
