#!/bin/bash
# tools/mutant.sh <label> <spec> <prop>...
#   spec = revert:<commit>  (undo a fix commit)  |  patch:<file>  (git apply a diff)
# Applies the change to a scratch worktree of /repo (never to /repo itself), checks that it still
# builds, runs the given checks (quick tier) against it and prints which ones fire.
set -u
label=$1; spec=$2; shift 2
WT=$(mktemp -d /tmp/vmut.XXXXXX)
git -C /repo worktree add -q --detach "$WT" HEAD || exit 2
cleanup() { git -C /repo worktree remove --force "$WT" 2>/dev/null; rm -rf "$WT"; }
trap cleanup EXIT
case $spec in
  revert:*) (cd "$WT" && git revert --no-commit "${spec#revert:}" >/dev/null 2>&1) || { echo "$label: revert failed"; exit 2; } ;;
  patch:*)  (cd "$WT" && git apply "${spec#patch:}") || { echo "$label: patch does not apply"; exit 2; } ;;
esac
export GOFLAGS=-mod=mod GOPROXY=off GOSUMDB=off GOTOOLCHAIN=local
(cd "$WT" && go build ./... 2>&1 | head -5) | grep -q . && { echo "$label: DOES NOT BUILD"; exit 2; }
if [ "${MUTANT_BASELINE:-0}" = 1 ]; then
  REPO=$WT "$(dirname "$0")/baseline.sh" | tail -3
fi
for p in "$@"; do
  out=$(REPO=$WT "$(dirname "$0")/../check" $p --tier quick 2>&1); code=$?
  nviol=$(echo "$out" | grep -c '^VIOLATION')
  first=$(echo "$out" | grep '^VIOLATION' | head -1 | sed 's/.*# //' | cut -c1-160)
  echo "$label $p exit=$code violations_lines=$nviol :: $first"
done
