#!/bin/bash
# tools/benign_eval.sh <id> <dir-with-_out/patch.diff> : silence test.  Applies an independently produced
# BEHAVIOUR-PRESERVING change to a fresh scratch worktree of /repo, builds it, runs the repository's
# suite, then runs every check (quick tier) against it.  Any VIOLATION is a candidate false alarm (or a
# behaviour change the author overlooked) and must be analysed; BROKEN means a driver no longer builds.
# Keeps the change and the outcome under /verif/benign/<id>/.
set -u
id=$1; src=$2
V=$(cd "$(dirname "$0")/.." && pwd)
export GOFLAGS=-mod=mod GOPROXY=off GOSUMDB=off GOTOOLCHAIN=local
P=$src/_out/patch.diff
[ -f "$P" ] || { echo "$id: no patch.diff"; exit 2; }
WT=$(mktemp -d /tmp/vbenign.XXXXXX); rmdir "$WT"
git -C /repo worktree add -q --detach "$WT" HEAD || exit 2
trap 'git -C /repo worktree remove --force "$WT" 2>/dev/null; rm -rf "$WT"' EXIT
(cd "$WT" && git apply "$P") || { echo "$id: patch does not apply"; exit 2; }
(cd "$WT" && go build ./...) || { echo "$id: does not build"; exit 2; }
REPO=$WT "$V/tools/baseline.sh" > "$WT/.baseline.out" 2>&1; b=$?
echo "-- repository suite rc=$b: $(tail -1 "$WT/.baseline.out")"
mkdir -p "$V/benign/$id"
cp "$P" "$V/benign/$id/patch.diff"; cp "$src/_out/notes.txt" "$V/benign/$id/notes.txt" 2>/dev/null
res=""
for n in $(seq -w 1 20); do
  out=$(REPO=$WT "$V/check" C$n --tier quick 2>&1); code=$?
  res="$res C$n=$code"
  if [ $code -ne 0 ]; then echo "-- C$n exit=$code"; echo "$out" | grep -E '^(VIOLATION|BROKEN)' | head -3 | cut -c1-400; fi
done
echo "== $id: baseline_rc=$b checks:$res"
python3 - "$V/benign/$id/result.json" "$b" "$res" "$(git -C /repo log --format=%h -1)" "$(wc -l < "$P")" <<'PY'
import json,sys
r={k:int(v) for k,v in (x.split("=") for x in sys.argv[3].split())}
json.dump({"repository_suite_passes":sys.argv[2]=="0","checks_exit_codes":r,"all_silent":all(v==0 for v in r.values()),"base_commit":sys.argv[4],"patch_lines":int(sys.argv[5])},open(sys.argv[1],"w"),indent=1)
PY
