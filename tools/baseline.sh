#!/bin/bash
# Runs the repository's own test suite with the default toolchain and no verif
# tag (hooks off) and compares the result with the 306 stable tests of
# /root/.vp/BASELINE.json.  Exit 0 iff every stable test passed.
set -u
REPO=${REPO:-/repo}
OUT=${1:-/tmp/verif-baseline.$$}
export GOFLAGS=-mod=mod GOPROXY=off GOSUMDB=off GOTOOLCHAIN=local
(cd "$REPO" && go test -mod=mod -json -vet=off -count=1 -timeout ${BASELINE_TIMEOUT:-25m} ./... > "$OUT.json" 2> "$OUT.err")
python3 - "$OUT.json" <<'EOF'
import json, sys
base = json.load(open("/root/.vp/BASELINE.json"))
stable = set(base["stable_pass"])
res = {}
for line in open(sys.argv[1], errors="replace"):
    try:
        e = json.loads(line)
    except Exception:
        continue
    if e.get("Test") and e.get("Action") in ("pass", "fail", "skip"):
        res[e["Package"] + "::" + e["Test"]] = e["Action"]
bad = sorted(t for t in stable if res.get(t) != "pass")
# Tests that use real tuntap devices with a fixed name occasionally *skip* when two of them run at
# once (also on the unmodified tree): re-run those individually before judging.
import subprocess, os
still = []
for t in bad:
    if res.get(t) != "skip":
        still.append(t); continue
    pkg, name = t.split("::")
    pat = "/".join("^%s$" % x for x in name.split("/"))
    ok = False
    for _ in range(3):
        p = subprocess.run(["go", "test", "-mod=mod", "-json", "-vet=off", "-count=1", "-run", pat, pkg], cwd=os.environ.get("REPO", "/repo"),
                           stdout=subprocess.PIPE, stderr=subprocess.DEVNULL, text=True)
        for line in p.stdout.splitlines():
            try:
                e = json.loads(line)
            except Exception:
                continue
            if e.get("Test") == name and e.get("Action") == "pass":
                ok = True
        if ok:
            break
    if ok:
        res[t] = "pass"
    else:
        still.append(t)
bad = still
print("stable tests: %d, passed: %d" % (len(stable), len(stable) - len(bad)))
for t in bad:
    print("NOT-PASSED", t, res.get(t))
sys.exit(1 if bad else 0)
EOF
rc=$?
rm -f "$OUT.json" "$OUT.err"
exit $rc
