#!/usr/bin/env python3
"""tools/seed_prompts.py <round> <letter> "<family hint>" : writes /tmp/seedprompt<round>-<ID>.txt for all 20
properties.  A prompt contains ONLY the property's text, the files it is anchored in, the slugs of earlier
seeded ideas (so that a new agent looks elsewhere) and the task protocol - nothing about /verif's machinery."""
import json, os, sys, glob
V = os.path.dirname(os.path.dirname(os.path.abspath(__file__)))
rnd, hint = sys.argv[1], sys.argv[2]
files = json.load(open(V + "/tools/seed_files.json"))
for line in open(V + "/properties.jsonl"):
    p = json.loads(line); pid = p["id"]
    wt = f"/tmp/seed{rnd}-{pid}"
    ideas = []
    for d in sorted(glob.glob(f"{V}/seeded/{pid}*")):
        slug = os.path.basename(d).split("-", 1)
        if len(slug) == 2:
            ideas.append('"' + slug[1].replace("-", " ") + '"')
    q = p.get("quantifier") or ""
    quant = q.get("text", "") if isinstance(q, dict) else q
    txt = f"""You are helping test a verification effort on the Go project mdlayher/corerad (an IPv6 NDP router-advertisement daemon).
A private scratch git worktree of the repository is at {wt} (HEAD = current tree). Work ONLY inside that directory. Do NOT read or touch /verif or /repo (you must work independently of whatever already exists there).

The property under test ({pid}: {p.get('title','')}):

STATEMENT: {p['statement']}

QUANTIFIED OVER: {quant}

Relevant files (relative to the worktree): {files[pid]}

Earlier attempts already used these ideas, do NOT repeat them or close variants: {'; '.join(ideas)}. Look for a different mechanism (another code site, another clause of the statement, another kind of input, fault or history). {hint}

YOUR TASK: produce ONE realistic source change (the kind of slip a maintainer could make in a refactor, optimisation or bug fix) that BREAKS this property, while
  (a) the repository still compiles (`go build ./...`), and
  (b) the repository's existing test suite still passes: run `cd {wt} && GOFLAGS=-mod=mod GOPROXY=off GOSUMDB=off GOTOOLCHAIN=local go test -count=1 ./...` (a few Linux integration tests may be skipped; `TestIntegrationWatcherWatch` in internal/netstate fails in this sandbox even on the unmodified tree - ignore that one; `TestIntegrationAddresserAddresses` in internal/system occasionally fails with "no such device" when other sessions create interfaces at the same time - rerun it).
The change must need something SPECIFIC to manifest - a particular interleaving or timing, a fault at a particular point, a multi-step sequence of operations, an unusual/boundary input, or two cooperating sites that each look fine alone - NOT something ordinary use or the existing tests would expose at once. Keep it small (a few lines) and plausible; do not add obviously malicious code, and do not change any *_test.go file that already exists. The change must break the property AS STATED (a behaviour the statement promises), for inputs inside what it quantifies over - not merely some neighbouring behaviour.

DELIVERABLES, all written into the directory {wt}/_seed/ (create it):
  1. patch.diff  - output of `git diff` for your source change only (not including the demonstration), applicable with `git apply` at the worktree root.
  2. a demonstration: a NEW Go test file (name it zz_demo_test.go, placed in the appropriate package directory, and ALSO copy it to _seed/ with a note of where it belongs) or a small program, which FAILS with your change applied and PASSES on the unmodified tree. State the exact command to run it. Verify both outcomes yourself (use `git stash` / `git apply -R` to go back and forth) and report the observed outputs.
  3. meta.json - {{"property": "{pid}", "summary": "...what was changed...", "needs_to_manifest": "...the specific input / interleaving / fault / sequence...", "demo_path": "...package dir for zz_demo_test.go...", "demo_cmd": "...", "files_changed": [...]}}

Toolchain notes: every shell call needs `export GOFLAGS=-mod=mod GOPROXY=off GOSUMDB=off GOTOOLCHAIN=local` (there is no network). `go` is 1.23.5. Keep virtual/real sleeps in your demonstration short (tests should finish in seconds).
When done, leave the worktree with your source change APPLIED and the demo test present, and reply with a short report: the diff, what it needs to manifest, and the pass/fail outputs you observed.
"""
    open(f"/tmp/seedprompt{rnd}-{pid}.txt", "w").write(txt)
    print(pid, len(ideas), "earlier ideas")
