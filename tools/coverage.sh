#!/bin/bash
# tools/coverage.sh [tier] : diagnostic, not a check.  Runs every check with statement coverage of
# CoreRAD's packages switched on and lists the statements of non-test source files that no workload
# reached (the family decides nothing about those).  Output: /verif/coverage/uncovered.txt + summary.json
V=$(cd "$(dirname "$0")/.." && pwd)
tier=${1:-quick}
D=$(mktemp -d /tmp/vcov.XXXXXX)
trap 'rm -rf "$D"' EXIT
export VERIF_COVER=$D
for i in $(seq -w 1 20); do
  REPO=${REPO:-/repo} "$V/check" C$i --tier "$tier" >/dev/null 2>&1
  echo "C$i rc=$?"
done
mkdir -p "$V/coverage"
python3 - "$D" "$V/coverage" <<'PY'
import sys,glob,os,json,collections
d,out=sys.argv[1],sys.argv[2]
cov={}
for f in glob.glob(d+"/*.cov"):
    prop=os.path.basename(f).split(".")[0]
    for l in open(f):
        if l.startswith("mode:"): continue
        try:
            loc,n,c=l.rsplit(" ",2)
        except ValueError: continue
        e=cov.setdefault(loc,[int(n),set()])
        if int(c)>0: e[1].add(prop)
per=collections.defaultdict(lambda:[0,0])
unc=[]
for loc,(n,props) in sorted(cov.items()):
    fn=loc.split(":")[0]
    if fn.endswith("_test.go") or "zz_verif_" in fn: continue
    per[fn][0]+=n
    if props: per[fn][1]+=n
    else: unc.append(loc)
tot=sum(v[0] for v in per.values()); hit=sum(v[1] for v in per.values())
json.dump({"statements":tot,"reached":hit,"files":{k:{"statements":v[0],"reached":v[1]} for k,v in sorted(per.items())}},open(out+"/summary.json","w"),indent=1)
open(out+"/uncovered.txt","w").write("\n".join(unc)+"\n")
print("statements %d reached %d (%.1f%%), %d uncovered blocks"%(tot,hit,100.0*hit/max(tot,1),len(unc)))
for k,v in sorted(per.items()):
    print("  %-70s %4d/%4d"%(k,v[1],v[0]))
PY
