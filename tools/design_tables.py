#!/usr/bin/env python3
"""Regenerates the validation tables of DESIGN.md §8 from mutants/results.json and seeded/*/meta.json."""
import json, os, glob, re
V = os.path.dirname(os.path.dirname(os.path.abspath(__file__)))
out = []
res = {}
p = os.path.join(V, "mutants", "results.json")
if os.path.exists(p):
    res = json.load(open(p))
out.append("**Hand-written mutants** (one-site edits; `suite` = does the repository's own 306-test suite still pass with it; "
           "`fired` = checks (quick tier) that exit 1 with a VIOLATION line; `silent` = checks that were expected to fire and did not).\n")
out.append("| mutant | file | suite passes | fired | silent |")
out.append("|---|---|---|---|---|")
nf = ns = 0
for k in sorted(res):
    r = res[k]
    if r.get("status") != "ok":
        out.append("| %s | – | – | (%s) | |" % (k, r.get("status")))
        continue
    fired = ", ".join(f["prop"] for f in r.get("fired", []))
    silent = ", ".join(s["prop"] for s in r.get("silent", []))
    if r.get("fired"):
        nf += 1
    elif r.get("expected"):
        ns += 1
    out.append("| %s | %s | %s | %s | %s |" % (k, os.path.basename(r.get("file", "")), {True: "yes", False: "no", None: "?"}[r.get("baseline_passes")], fired or "–", silent or ""))
out.append("\n%d mutants detected by at least one check, %d expected-but-undetected (see notes below the table).\n" % (nf, ns))
out.append("**Independently seeded changes** (`/verif/seeded/<id>/`).\n")
out.append("| id | property | what it needs to manifest | suite passes | demo fails with / passes without | checks (exit 1 = detected) | history |")
out.append("|---|---|---|---|---|---|---|")
for m in sorted(glob.glob(os.path.join(V, "seeded", "*", "meta.json"))):
    d = json.load(open(m))
    c = d.get("confirmed", {})
    need = re.sub(r"\s+", " ", d.get("needs_to_manifest", ""))[:260]
    hist = re.sub(r"\s+", " ", d.get("history", "caught at first evaluation"))[:400]
    out.append("| %s | %s | %s | %s | %s / %s | %s | %s |" % (
        os.path.basename(os.path.dirname(m)), d.get("property"), need.replace("|", "/"),
        "yes" if c.get("repository_suite_passes_with_change") else "see note",
        "yes" if c.get("demo_fails_with_change") else "NO", "yes" if c.get("demo_passes_on_unmodified_tree") else "NO",
        c.get("checks_run_quick_tier(exit 1 = detected)", ""), hist.replace("|", "/")))
out.append("\n**Behaviour-preserving refactors** (`/verif/benign/<id>/`, `tools/benign_eval.sh`): every check must stay silent (exit 0) on each.  The outcome recorded is that of the first evaluation; where a driver did not build (exit 2) the remedy is in §9 and the re-run was silent.\n")
out.append("| id | changed lines | repository suite | checks not exiting 0 at first evaluation |")
out.append("|---|---|---|---|")
for m in sorted(glob.glob(os.path.join(V, "benign", "*", "result.json"))):
    d = json.load(open(m))
    bad = ", ".join("%s=%d" % (k, v) for k, v in sorted(d["checks_exit_codes"].items()) if v != 0) or "none"
    if d.get("first_evaluation"):
        bad = d["first_evaluation"] + " → now none"
    out.append("| %s | %d | %s | %s |" % (os.path.basename(os.path.dirname(m)), d.get("patch_lines", 0), "passes" if d.get("repository_suite_passes") else "FAILS", bad))
txt = "\n".join(out)
dp = os.path.join(V, "DESIGN.md")
s = open(dp).read()
a, b = "<!-- VALIDATION-TABLES-BEGIN -->", "<!-- VALIDATION-TABLES-END -->"
i, j = s.index(a), s.index(b)
s = s[:i + len(a)] + "\n" + txt + "\n" + s[j:]
open(dp, "w").write(s)
print("tables written:", len(res), "mutants,", len(glob.glob(os.path.join(V, "seeded", "*", "meta.json"))), "seeded")
