#!/bin/bash
# tools/benign_recheck.sh [id…] : re-runs every check (quick tier) against each stored behaviour-preserving
# change under /verif/benign that still applies to /repo HEAD (after the checks have been strengthened).
# Updates benign/<id>/result.json; prints only what needs attention.
V=$(cd "$(dirname "$0")/.." && pwd)
export GOFLAGS=-mod=mod GOPROXY=off GOSUMDB=off GOTOOLCHAIN=local
ids=("$@"); [ ${#ids[@]} -eq 0 ] && ids=($(ls "$V/benign"))
for id in "${ids[@]}"; do
  P=$V/benign/$id/patch.diff
  WT=$(mktemp -d /tmp/vbenign.XXXXXX); rmdir "$WT"
  git -C /repo worktree add -q --detach "$WT" HEAD || continue
  if ! (cd "$WT" && git apply "$P" 2>/dev/null && go build ./... 2>/dev/null); then
    echo "== $id: no longer applies to HEAD (skipped)"; git -C /repo worktree remove --force "$WT"; continue
  fi
  res=""
  for n in $(seq -w 1 20); do
    out=$(REPO=$WT "$V/check" C$n --tier quick 2>&1); code=$?
    res="$res C$n=$code"
    if [ $code -ne 0 ]; then echo "-- $id C$n exit=$code"; echo "$out" | grep -E '^(VIOLATION|BROKEN)' | head -3 | cut -c1-400; fi
  done
  echo "== $id:$res"
  python3 - "$V/benign/$id/result.json" "$res" "$(git -C /repo log --format=%h -1)" <<'PY'
import json,sys
p=sys.argv[1]; d=json.load(open(p))
r={k:int(v) for k,v in (x.split("=") for x in sys.argv[2].split())}
d["rechecked_at_commit"]=sys.argv[3]; d["recheck_exit_codes"]=r; d["recheck_all_silent"]=all(v==0 for v in r.values())
json.dump(d,open(p,"w"),indent=1)
PY
  git -C /repo worktree remove --force "$WT"
done
