#!/bin/bash
# Runs every check of MANIFEST.json (quick tier by default) and prints one line each.
cd "$(dirname "$0")/.."
tier=${1:-quick}
rc=0
for p in $(python3 -c "from checks import CHECKS; print(' '.join(sorted(CHECKS)))"); do
  out=$(./check $p --tier $tier 2>&1); code=$?
  echo "$p exit=$code $(echo "$out" | grep -E '^# C' | tail -1)"
  echo "$out" | grep -E '^(VIOLATION|BROKEN|INCONCLUSIVE|KNOWN)' | head -5
  [ $code -ne 0 ] && rc=1
done
exit $rc
