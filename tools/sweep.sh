#!/bin/bash
# tools/sweep.sh <tier> <seed>... : runs every check for each seed, prints only lines that need attention.
cd "$(dirname "$0")/.."
tier=$1; shift
for s in "$@"; do
  for p in $(python3 -c "from checks import CHECKS; print(' '.join(sorted(CHECKS)))"); do
    out=$(VERIF_SEED=$s ./check $p --tier $tier 2>&1); code=$?
    echo "seed=$s $p exit=$code $(echo "$out" | grep -E '^# C' | tail -1 | sed 's/.*evaluations/evaluations/')"
    echo "$out" | grep -E '^(VIOLATION|BROKEN|INCONCLUSIVE)' | head -4 | cut -c1-400
  done
done
