#!/bin/bash
# tools/netns.sh <command...> : runs the command in a private network namespace that has
# lo up and a veth pair va <-> vb, both up with link-local addresses ready (no DAD delay).
# Exit 77 = the namespace could not be created (the caller reports "inconclusive").
if [ "${VERIF_IN_NETNS:-}" != 1 ]; then
  command -v unshare >/dev/null || exit 77
  VERIF_IN_NETNS=1 exec unshare -n -- "$0" "$@" || exit 77
fi
set -e
{
ip link set lo up
ip link add va type veth peer name vb
for i in va vb; do
  sysctl -qw net.ipv6.conf.$i.accept_dad=0 net.ipv6.conf.$i.dad_transmits=0 net.ipv6.conf.$i.accept_ra=0 net.ipv6.conf.$i.router_solicitations=0
done
sysctl -qw net.ipv6.conf.va.autoconf=1 net.ipv6.conf.all.forwarding=0 net.ipv6.conf.va.forwarding=1
ip link set va address 02:00:00:00:0a:01
ip link set vb address 02:00:00:00:0b:01
ip link set va up
ip link set vb up
} >/dev/null 2>&1 || exit 77
# wait for link-local addresses
for n in $(seq 1 50); do
  if ip -6 addr show dev va scope link | grep -q 'inet6 fe80' && ip -6 addr show dev vb scope link | grep -q 'inet6 fe80' \
     && ! ip -6 addr show dev va | grep -q tentative; then break; fi
  sleep 0.05
done
exec "$@"
