#!/bin/bash
# tools/seed_eval.sh <seed-id> <agent-worktree> <check-prop>...
# Confirms an independently produced change (patch.diff + demonstration + meta.json in <agent-worktree>/_seed):
# applies it to a FRESH scratch worktree of /repo, verifies build, the repository's suite, that the demonstration
# fails with it and passes without it, then runs the given checks against it. Keeps it under /verif/seeded/<seed-id>/.
set -u
id=$1; src=$2; shift 2
V=$(cd "$(dirname "$0")/.." && pwd)
export GOFLAGS=-mod=mod GOPROXY=off GOSUMDB=off GOTOOLCHAIN=local
S=$src/_seed
[ -f "$S/patch.diff" ] || { echo "$id: no patch.diff"; exit 2; }
WT=$(mktemp -d /tmp/vseed.XXXXXX); rmdir "$WT"
git -C /repo worktree add -q --detach "$WT" HEAD || exit 2
trap 'git -C /repo worktree remove --force "$WT" 2>/dev/null; rm -rf "$WT"' EXIT
demo_dir=$(python3 -c "import json;print(json.load(open('$S/meta.json')).get('demo_path',''))" 2>/dev/null)
demo_cmd=$(python3 -c "import json;print(json.load(open('$S/meta.json')).get('demo_cmd',''))" 2>/dev/null)
demo_dir=${demo_dir#/tmp/seed-*/}; demo_dir=${demo_dir#./}
demo_file=$(ls "$S"/*_test.go 2>/dev/null | head -1)
echo "== $id: demo_dir=$demo_dir demo_file=$(basename "$demo_file")"
run_demo() { (cd "$WT" && cp "$demo_file" "$demo_dir/zz_demo_test.go" && timeout 300 go test -count=1 -run 'Demo|demo|Seed' ./$demo_dir 2>&1 | tail -4; rc=${PIPESTATUS[0]}; rm -f "$demo_dir/zz_demo_test.go"; exit $rc); }
echo "-- demo on unmodified tree (must pass)"; run_demo; d0=$?
(cd "$WT" && git apply "$S/patch.diff") || { echo "$id: patch does not apply to HEAD"; exit 2; }
(cd "$WT" && go build ./...) || { echo "$id: does not build"; exit 2; }
echo "-- demo with the change (must fail)"; run_demo; d1=$?
echo "-- repository suite with the change"; REPO=$WT "$V/tools/baseline.sh" > "$WT/.baseline.out" 2>&1; b=$?; tail -3 "$WT/.baseline.out"
res=""
for p in "$@"; do
  out=$(REPO=$WT "$V/check" $p --tier quick 2>&1); code=$?
  first=$(echo "$out" | grep '^VIOLATION' | head -1 | sed 's/.*# //' | cut -c1-220)
  echo "-- check $p exit=$code :: $first"
  res="$res $p=$code"
done
echo "== $id summary: demo_clean_rc=$d0 demo_mutant_rc=$d1 baseline_rc=$b checks:$res"
base=$(git -C /repo log --format=%h -1)
mkdir -p "$V/seeded/$id"
cp "$S/patch.diff" "$V/seeded/$id/patch.diff"
cp "$demo_file" "$V/seeded/$id/$(basename "$demo_file")"
python3 - "$S/meta.json" "$V/seeded/$id/meta.json" "$d0" "$d1" "$b" "$res" "$demo_dir" "$base" <<'PY'
import json,sys
m=json.load(open(sys.argv[1]))
m["confirmed"]={"demo_passes_on_unmodified_tree":sys.argv[3]=="0","demo_fails_with_change":sys.argv[4]!="0","repository_suite_passes_with_change":sys.argv[5]=="0",
  "checks_run_quick_tier(exit 1 = detected)":sys.argv[6].strip(),"demo_dir":sys.argv[7],
  "how":"tools/seed_eval.sh: fresh worktree of /repo HEAD, git apply patch.diff, go build, tools/baseline.sh, demonstration before/after, ./check <prop> with REPO=<worktree>"}
m["base_commit"]=sys.argv[8]
json.dump(m,open(sys.argv[2],"w"),indent=1)
PY
