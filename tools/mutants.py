#!/usr/bin/env python3
"""Self-validation: applies small hand-written mutants (one at a time) to a scratch worktree of
/repo, checks that each still builds, optionally runs the repository's own suite, runs the named
checks (quick tier) with REPO pointing at the worktree and records which fire.

usage: tools/mutants.py [--baseline] [--only ID[,ID…]] [--out FILE]
Nothing is ever written to /repo itself.
"""
import json, os, subprocess, sys, tempfile, shutil

VERIF = os.path.dirname(os.path.dirname(os.path.abspath(__file__)))
ENV = dict(os.environ, GOFLAGS="-mod=mod", GOPROXY="off", GOSUMDB="off", GOTOOLCHAIN="local")

A = "internal/corerad/advertise.go"
L = "internal/corerad/listener.go"
P = "internal/plugin/plugin.go"
CI = "internal/config/interface.go"
CP = "internal/config/plugin.go"
CC = "internal/config/config.go"
V = "internal/corerad/verify.go"
D = "internal/system/dialer.go"
M = "internal/corerad/metrics.go"
MO = "internal/corerad/monitor.go"
W = "internal/netstate/watcher.go"
S = "internal/corerad/server.go"
H = "internal/crhttp/handler.go"
RA = "internal/crhttp/ra.go"

# (id, file, old, new, [properties expected to fire])
MUTANTS = [
    # C01
    ("c01-swap-mo", CC, "ManagedConfiguration:      ifi.Managed,\n\t\tOtherConfiguration:        ifi.OtherConfig,", "ManagedConfiguration:      ifi.OtherConfig,\n\t\tOtherConfiguration:        ifi.Managed,", ["C01"]),
    ("c01-pref64-x2", P, "int(maxInterval.Seconds())*3 < int(lifetime.Seconds())", "int(maxInterval.Seconds())*2 < int(lifetime.Seconds())", []),
    ("c01-pref64-mul2", P, "lifetimeSeconds := int(maxInterval.Seconds()) * 3", "lifetimeSeconds := int(maxInterval.Seconds()) * 2", ["C01", "C02"]),
    ("c01-dnssl-alias", P, "\tra.Options = append(ra.Options, &ndp.DNSSearchList{\n\t\tLifetime:    d.Lifetime,\n\t\tDomainNames: d.DomainNames,\n\t})",
     "\tif len(d.DomainNames) > 1 {\n\t\td.DomainNames = d.DomainNames[:len(d.DomainNames)-1]\n\t}\n\tra.Options = append(ra.Options, &ndp.DNSSearchList{\n\t\tLifetime:    d.Lifetime,\n\t\tDomainNames: d.DomainNames,\n\t})", ["C01"]),
    ("c01-mtu-before-dnssl", CP, "\tfor _, d := range ifi.DNSSL {", "\tif ifi.MTU > 0 && ifi.MTU <= 65536 {\n\t\tplugins = append(plugins, plugin.NewMTU(ifi.MTU))\n\t\tifi.MTU = 0\n\t}\n\tfor _, d := range ifi.DNSSL {", ["C01", "C02"]),
    # C02
    ("c02-max-upper-ge", CI, "maxInterval > 1800*time.Second", "maxInterval >= 1800*time.Second", ["C02"]),
    ("c02-min-lower", CI, "if min < 3*time.Second || min > upper", "if min <= 3*time.Second || min > upper", ["C02"]),
    ("c02-hoplimit-default", CI, "hopLimit := 64", "hopLimit := 255", ["C02"]),
    ("c02-075-08", CI, "upper := time.Duration(0.75 * float64(max))", "upper := time.Duration(0.8 * float64(max))", ["C02"]),
    ("c02-names-unique", CC, "\t\t\tif _, ok := seen[ifi.Name]; ok {", "\t\t\tif _, ok := seen[ifi.Name]; ok && len(ifis) == 1 {", ["C02"]),
    ("c02-reachable-upper", CI, "reachable > 1*time.Hour", "reachable > 2*time.Hour", ["C02"]),
    ("c02-lifetime-9000", CI, "lt > 9000*time.Second", "lt > 9000*time.Minute", ["C02", "C03"]),
    ("c02-prefix-overlap", CP, "if pfx1 != pfx2 && pfx1.Prefix.Overlaps(pfx2.Prefix) {", "if pfx1 != pfx2 && pfx1.Prefix == pfx2.Prefix {", ["C02"]),
    ("c02-rdnss-dup", CP, "\t\tif _, ok := servers[ip]; ok {", "\t\tif _, ok := servers[ip]; ok && false {", ["C02"]),
    ("c02-deprecated-infinite", CP, "if p.Deprecated && (preferred == ndp.Infinity || valid == ndp.Infinity) {", "if p.Deprecated && (preferred == ndp.Infinity && valid == ndp.Infinity) {", ["C02"]),
    # C03
    ("c03-checklifetime-neg", CP, "if d < 0 || d > ndp.Infinity {", "if d > ndp.Infinity {", ["C02", "C03"]),
    ("c03-checklifetime-max", CP, "if d < 0 || d > ndp.Infinity {", "if d < 0 {", ["C03"]),
    ("c03-pref64-sizes", CP, "case 96, 64, 56, 48, 40, 32:", "case 96, 64, 56, 48, 40, 32, 33:", ["C02", "C03"]),
    # C04
    ("c04-invert", CC, "if ra.RouterLifetime > 0 && !forwarding {", "if ra.RouterLifetime > 0 && forwarding {", ["C04", "C01"]),
    ("c04-api-true", H, "ra, _, err := iface.RouterAdvertisement(forwarding)", "ra, _, err := iface.RouterAdvertisement(forwarding || true)", ["C04", "C17"]),
    ("c04-cache-forwarding", [
        (A, "\tminDelayBetweenRAs time.Duration\n}", "\tminDelayBetweenRAs time.Duration\n\tfwd, fwdKnown      bool\n}"),
        (A, "\tforwarding, err := a.cctx.state.IPv6Forwarding(ifi.Name)\n", "\tif a.fwdKnown {\n\t\tra, _, err := ifi.RouterAdvertisement(a.fwd)\n\t\treturn ra, err\n\t}\n\tforwarding, err := a.cctx.state.IPv6Forwarding(ifi.Name)\n\ta.fwd, a.fwdKnown = forwarding, err == nil\n"),
     ], None, None, ["C04"]),
    # C05
    ("c05-initial-le", A, "if i < maxInitialAdv && d > maxInitialAdvInterval {", "if i <= maxInitialAdv && d > maxInitialAdvInterval {", ["C05"]),
    ("c05-drop-min", A, "d = (min + time.Duration(", "d = (0 + time.Duration(", ["C05"]),
    ("c05-clamp-lt", A, "if i < maxInitialAdv && d > maxInitialAdvInterval {", "if i < maxInitialAdv && d < maxInitialAdvInterval {", ["C05"]),
    # C06
    ("c06-no-coalesce", A, "\t\tif lastMulticast.After(now) {\n", "\t\tif lastMulticast.After(now) && false {\n", []),  # the plan only: since F14 the spacing is also enforced at transmission time, so C06 still holds (extra or later RAs are allowed)
    ("c06-delay-le", A, "if next := lastMulticast.Add(a.minDelayBetweenRAs); next.After(now) {", "if next := lastMulticast.Add(a.minDelayBetweenRAs - time.Millisecond); next.After(now) {", []),  # the plan only: since F14 the spacing is also enforced at transmission time, so C06 still holds (extra or later RAs are allowed)
    ("c06-last-not-updated", A, "\t\tlastMulticast = now.Add(delay)\n", "\t\tif delay > 0 {\n\t\t\tlastMulticast = now.Add(delay)\n\t\t}\n", []),  # the plan only: since F14 the spacing is also enforced at transmission time, so C06 still holds (extra or later RAs are allowed)
    # C07
    ("c07-const-radelay", A, "maxRADelay            = 500 * time.Millisecond", "maxRADelay            = 5000 * time.Millisecond", ["C07"]),
    ("c05-const-initial-interval", A, "maxInitialAdvInterval = 16 * time.Second", "maxInitialAdvInterval = 60 * time.Second", ["C05"]),
    ("c05-const-initial-count", A, "maxInitialAdv         = 3", "maxInitialAdv         = 2", ["C05"]),
    ("c06-const-mindelay", A, "minDelayBetweenRAs    = 3 * time.Second", "minDelayBetweenRAs    = 2 * time.Second", ["C06"]),
    ("c07-fixed-delay", A, "delay := time.Duration(prng.Int63n(maxRADelay.Nanoseconds())) * time.Nanosecond", "delay := maxRADelay + time.Duration(prng.Int63n(2))", ["C07"]),
    ("c07-drop-when-full", A, "\t\t\tif ip.IsValid() {\n\t\t\t\tipC <- ip\n\t\t\t}", "\t\t\tif ip.IsValid() {\n\t\t\t\tselect {\n\t\t\t\tcase ipC <- ip:\n\t\t\t\tdefault:\n\t\t\t\t}\n\t\t\t}", ["C07"]),
    ("c07-count-before-send", A, "\ttyp := \"unicast\"\n\tif ip.IsMulticast() {", "\ttyp := \"unicast\"\n\tif !ip.Is6() {", ["C07"]),
    ("c07-unicast-to-multicast", A, "\t\tif host.IsUnspecified() {", "\t\tif host.IsUnspecified() || !host.IsLinkLocalUnicast() {", ["C07"]),
    # C08
    ("c08-invert-terminate", A, "\tif !a.terminate() {", "\tif a.terminate() {", ["C08"]),
    ("c08-return-ctx-err", A, "\t\t\ta.shutdown(dctx.Conn)\n\t\t\treturn nil", "\t\t\ta.shutdown(dctx.Conn)\n\t\t\treturn err", []),
    ("c08-no-wait-workers", A, "\t\tstopped = true\n\t\tmu.Unlock()\n\t\twg.Wait()", "\t\tstopped = true\n\t\tmu.Unlock()", ["C08"]),
    # C09
    ("c09-hop-lt", L, "if cm.HopLimit != ndp.HopLimit {", "if cm.HopLimit < ndp.HopLimit-1 {", ["C09"]),
    ("c09-count-but-dispatch", L, "\t\t\tl.cctx.mm.MessagesReceivedInvalidTotal(1.0, l.iface, m.Type().String())\n\t\t\tcontinue", "\t\t\tl.cctx.mm.MessagesReceivedInvalidTotal(1.0, l.iface, m.Type().String())", ["C09"]),
    ("c09-retry-counts-invalid", L, "\t\t\tl.cctx.mm.MessagesReceivedInvalidTotal(1.0, l.iface, m.Type().String())\n\t\t\tcontinue", "\t\t\tl.cctx.mm.MessagesReceivedInvalidTotal(1.0, l.iface, m.Type().String())\n\t\t\ti++\n\t\t\tcontinue", ["C09"]),
    # C10
    ("c10-perm-recoverable", D, "\t\tif errors.Is(serr, os.ErrPermission) {", "\t\tif errors.Is(serr, os.ErrPermission) && false {", ["C10"]),
    ("c10-attempts-5", D, "\t\tattempts = 50", "\t\tattempts = 5", ["C10"]),
    ("c10-delay-uncapped", D, "\t\t\tif delay > maxDelay {", "\t\t\tif delay > 10*maxDelay {", ["C10"]),
    ("c10-swallow-write-error", A, "\t\ta.cctx.mm.AdvErrorsTotal(1.0, a.cfg.Name, \"transmit\")\n\t\treturn err", "\t\ta.cctx.mm.AdvErrorsTotal(1.0, a.cfg.Name, \"transmit\")\n\t\treturn nil", ["C10"]),
    ("c10-listener-nil-on-error", L, "\t\t\treturn fmt.Errorf(\"failed to read NDP messages: %w\", err)", "\t\t\treturn nil", ["C10"]),
    ("c10-retries-7", L, "const retries = 5", "const retries = 7", ["C10"]),
    # C11
    ("c11-skip-done-on-nil", D, "\t\terr = fn(ctx, dctx)\n\t\tif dctx.done != nil {", "\t\terr = fn(ctx, dctx)\n\t\tif dctx.done != nil && err != nil {", ["C11"]),
    ("c11-restore-true", D, "err := d.state.SetIPv6Autoconf(d.iface, prev)", "err := d.state.SetIPv6Autoconf(d.iface, prev || true)", ["C11"]),
    ("c11-notexist-fatal", D, "\t\tcase errors.Is(err, os.ErrNotExist):", "\t\tcase errors.Is(err, os.ErrNotExist) && false:", ["C11"]),
    ("c11-double-done", D, "\t\tif err == nil {\n\t\t\t// No error, all done.\n\t\t\treturn nil", "\t\tif err == nil {\n\t\t\tif dctx.done != nil {\n\t\t\t\t_ = dctx.done()\n\t\t\t}\n\t\t\treturn nil", ["C11"]),
    # C12
    ("c12-route-ignore-pref", V, "if a.Preference == b.Preference && a.RouteLifetime != b.RouteLifetime {", "if a.RouteLifetime != b.RouteLifetime {", ["C12"]),
    ("c12-mtu-one-side", V, "\tif !okA || !okB {\n\t\t// If either are not advertising MTUs, nothing to do.\n\t\treturn nil\n\t}", "\tif !okA && !okB {\n\t\treturn nil\n\t}\n\tif !okA || !okB {\n\t\tvar ps problems\n\t\tps.push(\"mtu\", \"\", 0, 1)\n\t\treturn ps\n\t}", ["C12"]),
    ("c12-rdnss-count-fallthrough", V, "\t\tps.push(\"rdnss_count\", \"\", len(dnsA), len(dnsB))\n\t\treturn ps", "\t\tps.push(\"rdnss_count\", \"\", len(dnsA), len(dnsB))\n\t\tif len(dnsA) > len(dnsB) {\n\t\t\tdnsA = dnsA[:len(dnsB)]\n\t\t} else {\n\t\t\tdnsB = dnsB[:len(dnsA)]\n\t\t}", ["C12"]),
    ("c12-reachable-zero", V, "\tif want == 0 || got == 0 {", "\tif want == 0 && got == 0 {", ["C12"]),
    # C13
    ("c13-no-temp-filter", P, "\t\tif a.Temporary || a.Tentative {\n\t\t\tcontinue\n\t\t}\n\n\t\t// TODO(mdlayher): handle a.Deprecated", "\t\tif a.Tentative {\n\t\t\tcontinue\n\t\t}\n\n\t\t// TODO(mdlayher): handle a.Deprecated", ["C13", "C01"]),
    ("c13-no-sort", P, "\tslices.SortStableFunc(prefixes, func(a, b netip.Prefix) int {\n\t\treturn a.Addr().Compare(b.Addr())\n\t})\n\n\treturn prefixes, nil\n}\n\n// apply unpacks prefixes", "\treturn prefixes, nil\n}\n\n// apply unpacks prefixes", ["C13", "C01"]),
    ("c13-dedup-by-addr", P, "\t\tpfx := a.Address.Masked()\n\t\tif _, ok := seen[pfx]; ok {", "\t\tpfx := a.Address.Masked()\n\t\tif _, ok := seen[a.Address]; ok {", ["C13"]),
    ("c13-deprecated-excluded", P, "\t\tif a.Temporary || a.Tentative {\n\t\t\tcontinue\n\t\t}\n\n\t\t// TODO(mdlayher): handle a.Deprecated", "\t\tif a.Temporary || a.Tentative || a.Deprecated {\n\t\t\tcontinue\n\t\t}\n\n\t\t// TODO(mdlayher): handle a.Deprecated", ["C13"]),
    # C14
    ("c14-swap-ula-gua", P, "\t\t(netip.Addr).IsPrivate,\n\t\t(netip.Addr).IsGlobalUnicast,", "\t\t(netip.Addr).IsGlobalUnicast,\n\t\t(netip.Addr).IsPrivate,", ["C14"]),
    ("c14-not-less", P, "\t\t\tif cIP.Less(bIP) {\n\t\t\t\treturn current\n\t\t\t}\n\n\t\t\treturn best\n\t\t}\n\t}", "\t\t\tif !cIP.Less(bIP) {\n\t\t\t\treturn current\n\t\t\t}\n\n\t\t\treturn best\n\t\t}\n\t}", ["C14"]),
    ("c14-no-eui64", P, "\t\tisEUI64(ip.Address.Addr())", "\t\tfalse", ["C14"]),
    ("c14-deprecated-eligible", P, "if ip.Is4() || a.Deprecated || a.Temporary || a.Tentative {", "if ip.Is4() || a.Temporary || a.Tentative {", ["C14"]),
    # C15
    ("c15-keep-128", P, "if rt.Prefix.Addr().Is4() || rt.Prefix.IsSingleIP() {", "if rt.Prefix.Addr().Is4() {", ["C15"]),
    ("c15-no-sort", P, "\tslices.SortStableFunc(prefixes, func(a, b netip.Prefix) int {\n\t\treturn a.Addr().Compare(b.Addr())\n\t})\n\n\treturn prefixes, nil\n}\n\n// apply unpacks routes", "\treturn prefixes, nil\n}\n\n// apply unpacks routes", ["C15"]),
    ("c15-le", P, "if rt2.Prefix.Bits() < rt.Prefix.Bits() && rt2.Prefix.Contains(rt.Prefix.Addr()) {", "if rt2.Prefix.Bits() <= rt.Prefix.Bits() && rt2.Prefix.Contains(rt.Prefix.Addr()) {", ["C15"]),
    # C16
    ("c16-valid-both", P, "\t\tprefT  = p.Epoch.Add(p.PreferredLifetime)", "\t\tprefT  = p.Epoch.Add(p.ValidLifetime)", ["C16"]),
    ("c16-after-only", P, "\tif now.Equal(lt) || now.After(lt) {\n\t\treturn 0\n\t}", "\tif now.After(lt.Add(time.Nanosecond)) {\n\t\treturn 0\n\t}", ["C16"]),
    ("c16-from-now", P, "\tlt := r.Epoch.Add(r.Lifetime)\n", "\tlt := now.Add(r.Lifetime / 2)\n", ["C16"]),
    ("c16-parse-drops-epoch", CP, "\t\tDeprecated: r.Deprecated,\n\t\tEpoch:      epoch,", "\t\tDeprecated: r.Deprecated,\n\t\tEpoch:      epoch.Truncate(time.Hour),", ["C02"]),
    # C17
    ("c17-no-rdnss-json", RA, "\t\tcase *ndp.RecursiveDNSServer:\n\t\t\tservers := make([]string, 0, len(o.Servers))", "\t\tcase *ndp.RecursiveDNSServer:\n\t\t\tif len(o.Servers) > 2 {\n\t\t\t\tcontinue\n\t\t\t}\n\t\t\tservers := make([]string, 0, len(o.Servers))", ["C17"]),
    ("c17-valid-for-preferred", M, "c(p.PreferredLifetime.Seconds(), mctx.Interface, prefixStr(p))", "c(p.ValidLifetime.Seconds(), mctx.Interface, prefixStr(p))", ["C17"]),
    ("c17-metrics-always", H, "\tif cfg.Debug.Prometheus {\n\t\tmux.Handle(\"/metrics\", prom)\n\t}", "\tmux.Handle(\"/metrics\", prom)", ["C17"]),
    ("c17-pprof-when-prom", H, "\tif cfg.Debug.PProf {", "\tif cfg.Debug.PProf || cfg.Debug.Prometheus {", ["C17"]),
    ("c17-not-prepared-panic", P, "\tif r.Routes == nil {\n\t\treturn nil, errNotPrepared\n\t}", "", ["C17"]),
    # C18
    ("c18-keep-zone", L, "Host: host.WithZone(\"\"),", "Host: host,", ["C18"]),
    ("c18-expiry-on-zero", MO, "\t\tif msg.RouterLifetime != 0 {", "\t\tif msg.RouterLifetime >= 0 {", ["C18"]),
    ("c18-swap-pref-valid", MO, "\t\t\tm.cctx.mm.MonPrefixPreferredLifetimeExpirationTime(\n\t\t\t\tfloat64(now.Add(p.PreferredLifetime).Unix()),", "\t\t\tm.cctx.mm.MonPrefixPreferredLifetimeExpirationTime(\n\t\t\t\tfloat64(now.Add(p.ValidLifetime).Unix()),", ["C18"]),
    ("c18-count-ra-only", MO, "\tm.cctx.mm.MonMessagesReceivedTotal(1.0, m.iface, host, msg.Type().String())\n", "\tif _, ok := msg.(*ndp.NeighborAdvertisement); !ok {\n\t\tm.cctx.mm.MonMessagesReceivedTotal(1.0, m.iface, host, msg.Type().String())\n\t}\n", ["C18"]),
    # C19
    ("c19-mask-eq", W, "\t\t\t\tif k&change == 0 {", "\t\t\t\tif k != change && k != LinkAny {", ["C19"]),
    ("c19-blocking-send", W, "\t\t\t\t\tselect {\n\t\t\t\t\tcase ch <- change:\n\t\t\t\t\tdefault:\n\t\t\t\t\t}", "\t\t\t\t\tch <- change", ["C19"]),
    ("c19-close-first-only", W, "\t\t\t\tfor _, ch := range vv {\n\t\t\t\t\tclose(ch)\n\t\t\t\t}", "\t\t\t\tfor _, ch := range vv[:1] {\n\t\t\t\t\tclose(ch)\n\t\t\t\t}", ["C19"]),
    ("c19-no-lock-notify", W, "func (w *Watcher) notify(changed changeSet) {\n\tw.mu.RLock()\n\tdefer w.mu.RUnlock()\n", "func (w *Watcher) notify(changed changeSet) {\n", ["C19"]),
    ("c19-buffer-4", W, "changeC := make(chan Change, 8)", "changeC := make(chan Change, 4)", ["C19"]),
    # C20
    ("c20-cancel-before-set", S, "\tt.t.set(sig)\n\tmsg := fmt.Sprintf(\"received %s, shutting down\", sig)\n\tt.ll.Print(msg)\n\t_ = t.n.Notify(sdnotify.Statusf(msg), sdnotify.Stopping)\n\tt.cancel()",
     "\tt.cancel()\n\tmsg := fmt.Sprintf(\"received %s, shutting down\", sig)\n\tt.ll.Print(msg)\n\t_ = t.n.Notify(sdnotify.Statusf(msg), sdnotify.Stopping)\n\tt.t.set(sig)", ["C20"]),
    ("c20-ready-before-wait", S, "\tgo func() {\n\t\twg.Wait()\n\t\t_ = n.Notify(", "\tgo func() {\n\t\t_ = n.Notify(", ["C20"]),
    ("c20-skip-monitor", S, "\t\tcase ifi.Monitor:\n\t\t\tdialer := system.NewDialer(ifi.Name, s.cctx.state, system.Monitor, s.cctx.ll)\n", "\t\tcase ifi.Monitor && len(tasks) == 0:\n\t\t\tdialer := system.NewDialer(ifi.Name, s.cctx.state, system.Monitor, s.cctx.ll)\n", []),
    ("c20-hup-terminal", "internal/corerad/signals_unix.go", "\treturn s != syscall.SIGHUP", "\treturn s != syscall.SIGHUP || true", ["C20"]),
    ("c20-serve-first-exit", S, "\t\t\t\treturn nil\n\t\t\t})\n\n\t\t\tgo func() {\n\t\t\t\tdefer wg.Done()", "\t\t\t\tcancel()\n\t\t\t\treturn nil\n\t\t\t})\n\n\t\t\tgo func() {\n\t\t\t\tdefer wg.Done()", ["C20"]),
    ("c20-serve-swallow-error-OLD", S, "\t\t\t\tif err := t.Run(ctx); err != nil {\n\t\t\t\t\treturn fmt.Errorf(\"failed to run task %s: %v\", t, err)\n\t\t\t\t}", "\t\t\t\tif err := t.Run(ctx); err != nil && ctx.Err() == nil {\n\t\t\t\t\treturn fmt.Errorf(\"failed to run task %s: %v\", t, err)\n\t\t\t\t}", []),
]


def sh(cmd, cwd=None, env=None, timeout=3600):
    p = subprocess.run(cmd, cwd=cwd, env=env or ENV, stdout=subprocess.PIPE, stderr=subprocess.STDOUT, text=True, timeout=timeout)
    return p.returncode, p.stdout


def main():
    args = sys.argv[1:]
    baseline = "--baseline" in args
    only = None
    out = os.path.join(VERIF, "mutants", "results.json")
    if "--only" in args:
        only = set(args[args.index("--only") + 1].split(","))
    if "--out" in args:
        out = args[args.index("--out") + 1]
    results = {}
    if os.path.exists(out):
        results = json.load(open(out))
    wt = tempfile.mkdtemp(prefix="vmut.", dir="/tmp")
    shutil.rmtree(wt)
    rc, o = sh(["git", "-C", "/repo", "worktree", "add", "-q", "--detach", wt, "HEAD"])
    if rc != 0:
        print(o); return 2
    head = sh(["git", "-C", "/repo", "rev-parse", "--short", "HEAD"])[1].strip()
    try:
        for mid, path, old, new, props in MUTANTS:
            if only and mid not in only:
                continue
            sh(["git", "checkout", "--", "."], cwd=wt)
            edits = [(path, old, new)] if isinstance(path, str) else path
            bad = False
            for (ep, eo, en) in edits:
                fp = os.path.join(wt, ep)
                src = open(fp).read()
                if src.count(eo) != 1:
                    print("%-28s PATTERN matches %d times in %s - skipped" % (mid, src.count(eo), ep), flush=True)
                    results[mid] = dict(status="pattern-mismatch", repo=head)
                    bad = True
                    break
                open(fp, "w").write(src.replace(eo, en))
            if bad:
                continue
            path = edits[0][0]
            rc, o = sh(["go", "build", "./..."], cwd=wt)
            if rc != 0:
                print("%-28s does not build: %s" % (mid, o.strip().splitlines()[:2]), flush=True)
                results[mid] = dict(status="does-not-build", repo=head)
                continue
            res = dict(status="ok", repo=head, file=path, expected=props, fired=[], silent=[])
            if baseline:
                rc, o = sh([os.path.join(VERIF, "tools", "baseline.sh")], env=dict(ENV, REPO=wt))
                res["baseline_passes"] = rc == 0
                if rc != 0:
                    res["baseline_failures"] = [l for l in o.splitlines() if l.startswith("NOT-PASSED")][:5]
            plist = props or []
            for p in plist:
                rc, o = sh([os.path.join(VERIF, "check"), p, "--tier", "quick"], env=dict(ENV, REPO=wt))
                first = next((l for l in o.splitlines() if l.startswith("VIOLATION")), "")
                if rc == 1 and first:
                    res["fired"].append(dict(prop=p, first=first.split("#", 1)[-1].strip()[:200]))
                else:
                    res["silent"].append(dict(prop=p, exit=rc))
            results[mid] = res
            print("%-28s baseline=%s fired=%s silent=%s" % (mid, res.get("baseline_passes", "-"), [f["prop"] for f in res["fired"]], [s["prop"] for s in res["silent"]]), flush=True)
            os.makedirs(os.path.dirname(out), exist_ok=True)
            json.dump(results, open(out, "w"), indent=1)
    finally:
        sh(["git", "-C", "/repo", "worktree", "remove", "--force", wt])
        shutil.rmtree(wt, ignore_errors=True)
    return 0


if __name__ == "__main__":
    sys.exit(main())
