#!/bin/bash
# Builds the framework from files on disk only and warms the Go build cache so
# that the first check does not pay for compiling the standard library with
# and without -race.
set -e
cd "$(dirname "$0")"
export GOFLAGS=-mod=mod GOPROXY=off GOSUMDB=off GOTOOLCHAIN=local
go1.26.8 build ./... 
python3 - <<'PY'
import sys, os
sys.path.insert(0, os.getcwd())
import importlib.machinery, importlib.util
loader = importlib.machinery.SourceFileLoader("vcheck", os.path.join(os.getcwd(), "check"))
spec = importlib.util.spec_from_loader("vcheck", loader)
mod = importlib.util.module_from_spec(spec)
loader.exec_module(mod)
from checks import CHECKS
seen = set()
ok = True
for prop, spec in CHECKS.items():
    for p in spec["parts"]:
        key = (p["pkg"], bool(p.get("race")), tuple(p.get("tags", [])))
        if key in seen:
            continue
        seen.add(key)
        b, msg = mod.build_binary("_warm", p["pkg"], key[1], list(key[2]))
        print(msg if b else "BUILD FAILED for %s: %s" % (key, msg), flush=True)
        ok = ok and b is not None
sys.exit(0 if ok else 1)
PY
rm -rf .build/_warm
