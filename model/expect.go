package model

import (
	"bytes"
	"fmt"
	"sort"
)

const (
	Second   = int64(1e9)
	Infinity = int64(0xffffffff) * Second
)

// ExpConfig is what a correct parser must produce for an accepted document.
type ExpConfig struct {
	Ifaces []ExpIface
	Debug  ExpDebug
}

type ExpDebug struct {
	Address           string
	Prometheus, PProf bool
}

type ExpIface struct {
	Name                        string
	Monitor, Advertise, Verbose bool
	Min, Max                    int64
	Managed, Other              bool
	Reachable, Retrans          int64
	HopLimit                    int
	DefaultLifetime             int64
	UnicastOnly                 bool
	Preference                  string
	Plugins                     []ExpPlugin
	// MinDontCare: the default min interval is not determined by the text
	// (max is not a multiple of 1ms).
	MinDontCare bool
}

type ExpPlugin struct {
	Kind string // prefix route rdnss dnssl mtu lla captive-portal pref64

	Auto               bool
	Addr               [16]byte
	Bits               int
	OnLink, Autonomous bool
	Valid, Preferred   int64
	Deprecated         bool
	RoutePref          string

	Lifetime    int64
	LifetimeAlt int64 // acceptable alternative (0 = none)
	Servers     [][16]byte
	Names       []string
	MTU         int
	URI         string
}

type verdict struct {
	reject   []string
	dontcare []string
}

func (v *verdict) no(f string, a ...any) { v.reject = append(v.reject, fmt.Sprintf(f, a...)) }
func (v *verdict) dc(f string, a ...any) { v.dontcare = append(v.dontcare, fmt.Sprintf(f, a...)) }
func (v *verdict) tri() Tri {
	switch {
	case len(v.reject) > 0:
		return No
	case len(v.dontcare) > 0:
		return DontCare
	}
	return Yes
}

func bv(b *bool, def bool) bool {
	if b == nil {
		return def
	}
	return *b
}

// lifetimeKey evaluates a key parsed with the "auto / infinite / empty"
// convention.  ok=false means the text is not a duration.
func lifetimeKey(d *Dur, def int64) (val int64, ok bool) {
	switch {
	case d == nil || d.Auto:
		return def, true
	case d.Infinite:
		return Infinity, true
	case d.Empty:
		return 0, true
	case d.Bad:
		return 0, false
	}
	return d.NS, true
}

func prefString(p *string, v *verdict, what string) string {
	if p == nil {
		return "medium"
	}
	switch *p {
	case "", "medium":
		return "medium"
	case "low":
		return "low"
	case "high":
		return "high"
	}
	v.no("%s: invalid preference %q", what, *p)
	return ""
}

func overlaps(a [16]byte, ab int, b [16]byte, bb int) bool {
	n := ab
	if bb < n {
		n = bb
	}
	for i := 0; i < n; i++ {
		if (a[i/8]>>(7-uint(i%8)))&1 != (b[i/8]>>(7-uint(i%8)))&1 {
			return false
		}
	}
	return true
}

var nat64Sizes = map[int]bool{96: true, 64: true, 56: true, 48: true, 40: true, 32: true}

// WKP is 64:ff9b::/96.
var WKP = [16]byte{0x00, 0x64, 0xff, 0x9b}

func ceil8(s int64) int64 {
	if r := s % 8; r > 0 {
		s += 8 - r
	}
	return s
}

// Expect evaluates the acceptance predicate of C02 and, for accepted
// documents, the configuration that must result.
func Expect(d *Doc) (Tri, *ExpConfig, []string) {
	v := &verdict{}
	cfg := &ExpConfig{}

	if d.UnknownTop {
		v.no("unknown top-level key")
	}
	if len(d.Ifaces) == 0 {
		v.no("no interfaces")
	}

	if d.Debug != nil {
		if d.Debug.Unknown {
			v.no("unknown key in [debug]")
		}
		if d.Debug.Address != nil && *d.Debug.Address != "" {
			switch d.Debug.AddrValid {
			case Yes:
				cfg.Debug = ExpDebug{Address: *d.Debug.Address, Prometheus: d.Debug.Prometheus, PProf: d.Debug.PProf}
			case No:
				v.no("bad debug address %q", *d.Debug.Address)
			default:
				v.dc("debug address %q", *d.Debug.Address)
			}
		}
	}

	seen := map[string]bool{}
	for i := range d.Ifaces {
		f := &d.Ifaces[i]
		what := fmt.Sprintf("interface %d", i)
		if f.Unknown {
			v.no("%s: unknown key", what)
		}
		if f.WrongType != "" {
			v.no("%s: key %s has the wrong TOML type", what, f.WrongType)
		}
		if f.DuplicateKey != "" {
			v.no("%s: key %s given twice", what, f.DuplicateKey)
		}
		hasName := f.Name != nil && *f.Name != ""
		hasNames := len(f.Names) > 0
		var names []string
		switch {
		case hasName && hasNames:
			v.no("%s: name and names", what)
		case hasName:
			names = []string{*f.Name}
		case hasNames:
			names = f.Names
			for _, n := range names {
				if n == "" {
					v.dc("%s: empty string inside names", what)
				}
			}
		default:
			v.no("%s: neither name nor names", what)
		}
		for _, n := range names {
			if seen[n] {
				v.no("%s: interface name %q repeated", what, n)
			}
			seen[n] = true
		}

		tmpl := expectIface(f, what, v)
		for _, n := range names {
			e := tmpl
			e.Name = n
			// Plugins are per-interface objects but equal in value.
			cfg.Ifaces = append(cfg.Ifaces, e)
		}
	}

	t := v.tri()
	reasons := append(append([]string{}, v.reject...), v.dontcare...)
	if t != Yes {
		return t, nil, reasons
	}
	return t, cfg, nil
}

func expectIface(f *Iface, what string, v *verdict) ExpIface {
	mon, adv := bv(f.Monitor, false), bv(f.Advertise, false)
	if mon && adv {
		v.no("%s: monitor and advertise", what)
	}
	if mon {
		// A monitoring interface carries no advertising settings.  Whether
		// out-of-range advertising keys on it are diagnosed is not stated.
		sub := &verdict{}
		_ = expectAdvertising(f, what, sub)
		for _, s := range sub.reject {
			v.dc("monitor interface with invalid advertising key: %s", s)
		}
		// Stanza-level structure errors are decoder errors and always fatal.
		for _, p := range f.Prefixes {
			if p.Unknown {
				v.no("%s: unknown key in prefix", what)
			}
		}
		for _, p := range f.Routes {
			if p.Unknown {
				v.no("%s: unknown key in route", what)
			}
		}
		for _, p := range f.RDNSS {
			if p.Unknown {
				v.no("%s: unknown key in rdnss", what)
			}
		}
		for _, p := range f.DNSSL {
			if p.Unknown {
				v.no("%s: unknown key in dnssl", what)
			}
		}
		for _, p := range f.PREF64 {
			if p.Unknown {
				v.no("%s: unknown key in pref64", what)
			}
		}
		return ExpIface{Monitor: true, Verbose: bv(f.Verbose, false), Preference: "medium"}
	}
	return expectAdvertising(f, what, v)
}

func expectAdvertising(f *Iface, what string, v *verdict) ExpIface {
	e := ExpIface{
		Advertise:   bv(f.Advertise, false),
		Verbose:     bv(f.Verbose, false),
		Managed:     bv(f.Managed, false),
		Other:       bv(f.OtherConfig, false),
		UnicastOnly: bv(f.UnicastOnly, false),
	}

	// max_interval
	max := 600 * Second
	maxKnown := true
	if m := f.MaxInterval; m != nil && !m.Empty {
		switch {
		case m.Auto:
			v.dc("%s: max_interval = auto", what)
			maxKnown = false
		case m.Bad || m.Infinite:
			v.no("%s: max_interval %s is not a duration", what, m)
			maxKnown = false
		default:
			max = m.NS
		}
	}
	if maxKnown && (max < 4*Second || max > 1800*Second) {
		v.no("%s: max_interval %d out of [4s,1800s]", what, max)
		maxKnown = false
	}
	e.Max = max

	// min_interval
	if m := f.MinInterval; m == nil || m.Empty || m.Auto {
		if max >= 9*Second {
			e.Min = (max / 100 * 33) // refined below
			// floor(0.33*max) to a whole second, integer arithmetic.
			e.Min = (max * 33 / 100) / Second * Second
		} else {
			e.Min = max
		}
		if max%1e6 != 0 {
			e.MinDontCare = true
		}
	} else if m.Bad || m.Infinite {
		v.no("%s: min_interval %s is not a duration", what, m)
	} else if maxKnown {
		upper := (max * 3 / 4) / Second * Second
		if m.NS < 3*Second || m.NS > upper {
			v.no("%s: min_interval %d out of [3s,%d]", what, m.NS, upper)
		}
		e.Min = m.NS
	}

	timer := func(d *Dur, name string) int64 {
		if d == nil || d.Empty {
			return 0
		}
		if d.Auto || d.Infinite {
			v.dc("%s: %s = %s", what, name, d)
			return 0
		}
		if d.Bad {
			v.no("%s: %s %s is not a duration", what, name, d)
			return 0
		}
		if d.NS < 0 || d.NS > 3600*Second {
			v.no("%s: %s %d out of [0,1h]", what, name, d.NS)
		}
		return d.NS
	}
	e.Reachable = timer(f.ReachableTime, "reachable_time")
	e.Retrans = timer(f.RetransmitTimer, "retransmit_timer")

	e.HopLimit = 64
	if f.HopLimit != nil {
		if *f.HopLimit < 0 || *f.HopLimit > 255 {
			v.no("%s: hop_limit %d", what, *f.HopLimit)
		}
		e.HopLimit = int(*f.HopLimit)
	}

	if lt, ok := lifetimeKey(f.DefaultLifetime, 3*max); !ok {
		v.no("%s: default_lifetime %s is not a duration", what, f.DefaultLifetime)
	} else {
		if maxKnown && lt != 0 && (lt < max || lt > 9000*Second) {
			v.no("%s: default_lifetime %d not 0 and out of [max,9000s]", what, lt)
		}
		e.DefaultLifetime = lt
	}

	e.Preference = prefString(f.Preference, v, what)

	// Plugins, in RA order.
	type pfx struct {
		addr [16]byte
		bits int
		auto bool
	}
	var pfxs []pfx
	for i, p := range f.Prefixes {
		pw := fmt.Sprintf("%s prefix %d", what, i)
		if p.Unknown {
			v.no("%s: unknown key", pw)
		}
		ep := ExpPlugin{Kind: "prefix", OnLink: bv(p.OnLink, true), Autonomous: bv(p.Autonomous, true), Deprecated: bv(p.Deprecated, false)}
		if p.Prefix == nil || p.Prefix.Text == "" {
			ep.Auto, ep.Bits = true, 64
		} else {
			c := p.Prefix
			switch {
			case !c.Parses:
				v.no("%s: %q is not a CIDR", pw, c.Text)
			case !c.V6:
				v.no("%s: %q is not IPv6", pw, c.Text)
			case !c.Canonical:
				v.no("%s: %q has host bits set", pw, c.Text)
			case c.Bits == 128:
				v.no("%s: /128", pw)
			case c.Unspecified() && c.Bits != 64:
				v.no("%s: wildcard other than ::/64", pw)
			}
			ep.Addr, ep.Bits = c.Addr, c.Bits
			ep.Auto = c.Unspecified() && c.Bits == 64
		}
		valid, ok1 := lifetimeKey(p.Valid, 24*3600*Second)
		pref, ok2 := lifetimeKey(p.Preferred, 4*3600*Second)
		if !ok1 {
			v.no("%s: valid_lifetime %s is not a duration", pw, p.Valid)
		}
		if !ok2 {
			v.no("%s: preferred_lifetime %s is not a duration", pw, p.Preferred)
		}
		if ok1 && ok2 {
			if valid <= 0 {
				v.no("%s: valid lifetime %d not positive", pw, valid)
			}
			if pref <= 0 {
				v.no("%s: preferred lifetime %d not positive", pw, pref)
			}
			if pref > valid {
				v.no("%s: preferred %d > valid %d", pw, pref, valid)
			}
			if valid > Infinity || pref > Infinity {
				v.dc("%s: lifetime above the infinite sentinel", pw)
			}
			if ep.Deprecated && (valid == Infinity || pref == Infinity) {
				v.no("%s: deprecated with infinite lifetime", pw)
			}
		}
		ep.Valid, ep.Preferred = valid, pref
		if p.Prefix == nil || p.Prefix.Text == "" || (p.Prefix.Parses && p.Prefix.V6) {
			pfxs = append(pfxs, pfx{ep.Addr, ep.Bits, ep.Auto})
		}
		e.Plugins = append(e.Plugins, ep)
	}
	for i := range pfxs {
		for j := range pfxs {
			if i != j && overlaps(pfxs[i].addr, pfxs[i].bits, pfxs[j].addr, pfxs[j].bits) {
				v.no("%s: prefixes %d and %d overlap", what, i, j)
			}
		}
	}

	var rts []pfx
	autoRoutes := 0
	for i, r := range f.Routes {
		rw := fmt.Sprintf("%s route %d", what, i)
		if r.Unknown {
			v.no("%s: unknown key", rw)
		}
		ep := ExpPlugin{Kind: "route", Deprecated: bv(r.Deprecated, false)}
		if r.Prefix == nil || r.Prefix.Text == "" {
			ep.Auto, ep.Bits = true, 0
		} else {
			c := r.Prefix
			switch {
			case !c.Parses:
				v.no("%s: %q is not a CIDR", rw, c.Text)
			case !c.V6:
				v.no("%s: %q is not IPv6", rw, c.Text)
			case !c.Canonical:
				v.no("%s: %q has host bits set", rw, c.Text)
			case c.Unspecified() && c.Bits != 0:
				v.no("%s: wildcard other than ::/0", rw)
			}
			ep.Addr, ep.Bits = c.Addr, c.Bits
			ep.Auto = c.Unspecified() && c.Bits == 0
		}
		ep.RoutePref = prefString(r.Preference, v, rw)
		lt, ok := lifetimeKey(r.Lifetime, 24*3600*Second)
		if !ok {
			v.no("%s: lifetime %s is not a duration", rw, r.Lifetime)
		} else {
			if lt <= 0 {
				v.no("%s: lifetime %d not positive", rw, lt)
			}
			if lt > Infinity {
				v.dc("%s: lifetime above the infinite sentinel", rw)
			}
			if ep.Deprecated && lt == Infinity {
				v.no("%s: deprecated with infinite lifetime", rw)
			}
		}
		ep.Valid = lt
		if ep.Auto {
			autoRoutes++
		} else if r.Prefix.Parses && r.Prefix.V6 {
			rts = append(rts, pfx{ep.Addr, ep.Bits, false})
		}
		e.Plugins = append(e.Plugins, ep)
	}
	if autoRoutes > 1 {
		v.dc("%s: more than one wildcard route", what)
	}
	for i := range rts {
		for j := range rts {
			if i != j && overlaps(rts[i].addr, rts[i].bits, rts[j].addr, rts[j].bits) {
				v.no("%s: routes %d and %d overlap", what, i, j)
			}
		}
	}

	for i, r := range f.RDNSS {
		rw := fmt.Sprintf("%s rdnss %d", what, i)
		if r.Unknown {
			v.no("%s: unknown key", rw)
		}
		ep := ExpPlugin{Kind: "rdnss"}
		lt, ok := lifetimeKey(r.Lifetime, 3*max)
		if !ok {
			v.no("%s: lifetime %s is not a duration", rw, r.Lifetime)
		} else {
			if lt < 0 {
				v.no("%s: negative lifetime", rw)
			}
			if lt > Infinity {
				v.dc("%s: lifetime above the infinite sentinel", rw)
			}
		}
		ep.Lifetime = lt
		if len(r.Servers) == 0 {
			ep.Auto = true
		} else {
			have := map[[16]byte]bool{}
			for _, s := range r.Servers {
				switch {
				case !s.Valid:
					v.no("%s: server %q is not an address", rw, s.Text)
					continue
				case !s.V6:
					v.no("%s: server %q is not IPv6", rw, s.Text)
					continue
				case s.Zone:
					v.dc("%s: server %q has a zone", rw, s.Text)
					continue
				}
				if s.Addr == ([16]byte{}) {
					if ep.Auto {
						v.no("%s: :: twice", rw)
					}
					ep.Auto = true
					continue
				}
				if have[s.Addr] {
					v.no("%s: server %q repeated", rw, s.Text)
				}
				have[s.Addr] = true
			}
			for a := range have {
				ep.Servers = append(ep.Servers, a)
			}
			sort.Slice(ep.Servers, func(i, j int) bool { return bytes.Compare(ep.Servers[i][:], ep.Servers[j][:]) < 0 })
		}
		e.Plugins = append(e.Plugins, ep)
	}

	for i, d := range f.DNSSL {
		dw := fmt.Sprintf("%s dnssl %d", what, i)
		if d.Unknown {
			v.no("%s: unknown key", dw)
		}
		ep := ExpPlugin{Kind: "dnssl", Names: d.Names}
		lt, ok := lifetimeKey(d.Lifetime, 3*max)
		if !ok {
			v.no("%s: lifetime %s is not a duration", dw, d.Lifetime)
		} else {
			if lt < 0 {
				v.no("%s: negative lifetime", dw)
			}
			if lt > Infinity {
				v.dc("%s: lifetime above the infinite sentinel", dw)
			}
		}
		ep.Lifetime = lt
		if len(d.Names) == 0 {
			v.no("%s: no domain names", dw)
		}
		have := map[string]bool{}
		for _, n := range d.Names {
			if n == "" {
				v.dc("%s: empty domain name", dw)
			}
			if have[n] {
				v.no("%s: domain %q repeated", dw, n)
			}
			have[n] = true
		}
		e.Plugins = append(e.Plugins, ep)
	}

	if f.MTU != nil {
		if *f.MTU < 0 || *f.MTU > 65536 {
			v.no("%s: mtu %d", what, *f.MTU)
		}
		if *f.MTU != 0 {
			e.Plugins = append(e.Plugins, ExpPlugin{Kind: "mtu", MTU: int(*f.MTU)})
		}
	}

	if bv(f.SourceLLA, true) {
		e.Plugins = append(e.Plugins, ExpPlugin{Kind: "lla"})
	}

	if f.CaptivePortal != nil && *f.CaptivePortal != "" {
		switch f.CaptivePortalOK {
		case Yes:
			e.Plugins = append(e.Plugins, ExpPlugin{Kind: "captive-portal", URI: f.CaptivePortalNorm})
		default:
			v.dc("%s: captive portal %q outside the fixed list", what, *f.CaptivePortal)
		}
	}

	for i, p := range f.PREF64 {
		pw := fmt.Sprintf("%s pref64 %d", what, i)
		if p.Unknown {
			v.no("%s: unknown key", pw)
		}
		ep := ExpPlugin{Kind: "pref64"}
		if p.Prefix == nil || p.Prefix.Text == "" {
			ep.Addr, ep.Bits = WKP, 96
		} else {
			c := p.Prefix
			switch {
			case !c.Parses:
				v.no("%s: %q is not a CIDR", pw, c.Text)
			case !c.V6:
				if c.Mapped {
					v.dc("%s: %q is IPv4-mapped", pw, c.Text)
				} else {
					v.no("%s: %q is not IPv6", pw, c.Text)
				}
			case !nat64Sizes[c.Bits]:
				v.no("%s: %q is not NAT64-sized", pw, c.Text)
			case !c.Canonical:
				v.dc("%s: %q has host bits set", pw, c.Text)
			}
			ep.Addr, ep.Bits = c.Addr, c.Bits
		}
		// 3 x MaxRtrAdvInterval rounded up to a multiple of 8 s, capped.
		lo := ceil8(3 * (max / Second))            // floor(max) first
		hi := ceil8((3*max + Second - 1) / Second) // exact product rounded up
		if lo > 65528 {
			lo = 65528
		}
		if hi > 65528 {
			hi = 65528
		}
		ep.Lifetime = hi * Second
		if lo != hi {
			ep.LifetimeAlt = lo * Second
		}
		e.Plugins = append(e.Plugins, ep)
	}

	return e
}
