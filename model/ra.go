package model

import (
	"bytes"
	"fmt"
	"net/netip"
	"reflect"
	"sort"
	"strings"
	"time"

	"github.com/mdlayher/ndp"
)

// RA is a router advertisement in plain values (durations in ns).
type RA struct {
	HopLimit       int
	Managed, Other bool
	Preference     string
	RouterLifetime int64
	Reachable      int64
	Retrans        int64
	Options        []Opt
}

// Opt is one option of an RA.
type Opt struct {
	Kind string // prefix route rdnss dnssl mtu slla captive-portal pref64 other

	Prefix             string `json:",omitempty"` // CIDR
	OnLink, Autonomous bool   `json:",omitempty"`
	Valid, Preferred   int64  `json:",omitempty"`
	RoutePref          string `json:",omitempty"`
	Lifetime           int64  `json:",omitempty"`
	// Alt is an acceptable alternative for Lifetime (expected side only).
	Alt     int64    `json:",omitempty"`
	Servers []string `json:",omitempty"`
	Names   []string `json:",omitempty"`
	MTU     int      `json:",omitempty"`
	MAC     string   `json:",omitempty"`
	URI     string   `json:",omitempty"`
	Other   string   `json:",omitempty"`
}

func PrefName(p ndp.Preference) string {
	switch p {
	case ndp.Low:
		return "low"
	case ndp.Medium:
		return "medium"
	case ndp.High:
		return "high"
	}
	return fmt.Sprintf("pref(%d)", int(p))
}

// FromNDP converts a real RA.
func FromNDP(ra *ndp.RouterAdvertisement) RA {
	out := RA{
		HopLimit: int(ra.CurrentHopLimit), Managed: ra.ManagedConfiguration, Other: ra.OtherConfiguration,
		Preference: PrefName(ra.RouterSelectionPreference), RouterLifetime: int64(ra.RouterLifetime),
		Reachable: int64(ra.ReachableTime), Retrans: int64(ra.RetransmitTimer),
	}
	for _, o := range ra.Options {
		out.Options = append(out.Options, OptFromNDP(o))
	}
	return out
}

func OptFromNDP(o ndp.Option) Opt {
	switch o := o.(type) {
	case *ndp.PrefixInformation:
		return Opt{Kind: "prefix", Prefix: netip.PrefixFrom(o.Prefix, int(o.PrefixLength)).String(), OnLink: o.OnLink,
			Autonomous: o.AutonomousAddressConfiguration, Valid: int64(o.ValidLifetime), Preferred: int64(o.PreferredLifetime)}
	case *ndp.RouteInformation:
		return Opt{Kind: "route", Prefix: netip.PrefixFrom(o.Prefix, int(o.PrefixLength)).String(),
			RoutePref: PrefName(o.Preference), Lifetime: int64(o.RouteLifetime)}
	case *ndp.RecursiveDNSServer:
		ss := make([]string, len(o.Servers))
		for i, s := range o.Servers {
			ss[i] = s.String()
		}
		return Opt{Kind: "rdnss", Lifetime: int64(o.Lifetime), Servers: ss}
	case *ndp.DNSSearchList:
		return Opt{Kind: "dnssl", Lifetime: int64(o.Lifetime), Names: append([]string(nil), o.DomainNames...)}
	case *ndp.MTU:
		return Opt{Kind: "mtu", MTU: int(o.MTU)}
	case *ndp.LinkLayerAddress:
		k := "slla"
		if o.Direction != ndp.Source {
			k = "tlla"
		}
		return Opt{Kind: k, MAC: o.Addr.String()}
	case *ndp.CaptivePortal:
		return Opt{Kind: "captive-portal", URI: o.URI}
	case *ndp.PREF64:
		return Opt{Kind: "pref64", Prefix: o.Prefix.String(), Lifetime: int64(o.Lifetime)}
	case nil:
		return Opt{Kind: "other", Other: "nil"}
	}
	return Opt{Kind: "other", Other: fmt.Sprintf("%T code=%d", o, o.Code())}
}

// SysIP mirrors the per-address facts CoreRAD gets from the operating system.
type SysIP struct {
	Addr                                                                      netip.Prefix
	Deprecated, ManageTemp, StablePrivacy, Temporary, Tentative, ValidForever bool
}

// Sys is the system state an RA is generated against.
type Sys struct {
	Addrs     []SysIP
	AddrsErr  bool
	Routes    []netip.Prefix
	RoutesErr bool
	MAC       []byte
}

func addr16(a [16]byte) netip.Addr { return netip.AddrFrom16(a) }

func pfxStr(a [16]byte, bits int) string { return netip.PrefixFrom(addr16(a), bits).String() }

// WildPrefixes is the C13 rule.
func WildPrefixes(addrs []SysIP) []netip.Prefix {
	set := map[netip.Prefix]bool{}
	for _, a := range addrs {
		ip := a.Addr.Addr()
		if !ip.Is6() || ip.Is4In6() || a.Addr.Bits() != 64 || ip.IsLinkLocalUnicast() || a.Temporary || a.Tentative {
			continue
		}
		set[a.Addr.Masked()] = true
	}
	out := make([]netip.Prefix, 0, len(set))
	for p := range set {
		out = append(out, p)
	}
	sort.Slice(out, func(i, j int) bool { return out[i].Addr().Less(out[j].Addr()) })
	return out
}

func isULA(a netip.Addr) bool { b := a.As16(); return b[0]&0xfe == 0xfc }

// Stable is the documented stability test of the RDNSS ranking.
func Stable(a SysIP) bool {
	b := a.Addr.Addr().As16()
	return a.ValidForever || a.ManageTemp || a.StablePrivacy || (b[11] == 0xff && b[12] == 0xfe)
}

func rdnssClass(a netip.Addr) int {
	switch {
	case isULA(a):
		return 0
	case a.IsGlobalUnicast():
		return 1
	case a.IsLinkLocalUnicast():
		return 2
	}
	return 3
}

// WildRDNSS is the C14 rule: the minimum of the eligible addresses under
// (not stable, class, address).
func WildRDNSS(addrs []SysIP) (netip.Addr, bool) {
	var best *SysIP
	less := func(x, y *SysIP) bool {
		sx, sy := Stable(*x), Stable(*y)
		if sx != sy {
			return sx
		}
		cx, cy := rdnssClass(x.Addr.Addr()), rdnssClass(y.Addr.Addr())
		if cx != cy {
			return cx < cy
		}
		return x.Addr.Addr().Less(y.Addr.Addr())
	}
	for i := range addrs {
		a := &addrs[i]
		ip := a.Addr.Addr()
		if !ip.Is6() || ip.Is4In6() || a.Deprecated || a.Temporary || a.Tentative {
			continue
		}
		if best == nil || less(a, best) {
			best = a
		}
	}
	if best == nil {
		return netip.Addr{}, false
	}
	return best.Addr.Addr(), true
}

// WildRoutes is the C15 rule.
func WildRoutes(routes []netip.Prefix) []netip.Prefix {
	set := map[netip.Prefix]bool{}
	for _, r := range routes {
		if !r.Addr().Is6() || r.Addr().Is4In6() || r.Bits() >= 128 {
			continue
		}
		set[r.Masked()] = true
	}
	var out []netip.Prefix
	for r := range set {
		covered := false
		for r2 := range set {
			if r2 != r && r2.Bits() < r.Bits() && r2.Contains(r.Addr()) {
				covered = true
				break
			}
		}
		if !covered {
			out = append(out, r)
		}
	}
	sort.Slice(out, func(i, j int) bool {
		if c := out[i].Addr().Compare(out[j].Addr()); c != 0 {
			return c < 0
		}
		return out[i].Bits() < out[j].Bits()
	})
	return out
}

// Remaining is the C16 formula.
func Remaining(epoch time.Time, lifetime int64, now time.Time) int64 {
	d := epoch.Add(time.Duration(lifetime)).Sub(now)
	if d < 0 {
		return 0
	}
	return int64(d)
}

// ExpectedRA computes the RA an accepted interface configuration calls for in
// a given system state.  wantErr reports that RA generation must fail;
// dontcare that the statement does not determine the result.
func ExpectedRA(e *ExpIface, sys *Sys, forwarding bool, epoch, now time.Time) (ra RA, wantErr bool, dontcare string) {
	ra = RA{HopLimit: e.HopLimit, Managed: e.Managed, Other: e.Other, Preference: e.Preference,
		RouterLifetime: e.DefaultLifetime, Reachable: e.Reachable, Retrans: e.Retrans}
	if !forwarding {
		ra.RouterLifetime = 0
	}
	for _, p := range e.Plugins {
		switch p.Kind {
		case "prefix":
			valid, pref := p.Valid, p.Preferred
			if p.Deprecated {
				valid, pref = Remaining(epoch, p.Valid, now), Remaining(epoch, p.Preferred, now)
			}
			var list []netip.Prefix
			if p.Auto {
				if sys.AddrsErr {
					return ra, true, ""
				}
				list = WildPrefixes(sys.Addrs)
			} else {
				list = []netip.Prefix{netip.PrefixFrom(addr16(p.Addr), p.Bits)}
			}
			for _, x := range list {
				ra.Options = append(ra.Options, Opt{Kind: "prefix", Prefix: x.String(), OnLink: p.OnLink, Autonomous: p.Autonomous, Valid: valid, Preferred: pref})
			}
		case "route":
			lt := p.Valid
			if p.Deprecated {
				lt = Remaining(epoch, p.Valid, now)
			}
			var list []netip.Prefix
			if p.Auto {
				if sys.RoutesErr {
					return ra, true, ""
				}
				list = WildRoutes(sys.Routes)
			} else {
				list = []netip.Prefix{netip.PrefixFrom(addr16(p.Addr), p.Bits)}
			}
			for _, x := range list {
				ra.Options = append(ra.Options, Opt{Kind: "route", Prefix: x.String(), RoutePref: p.RoutePref, Lifetime: lt})
			}
		case "rdnss":
			var ss []string
			if p.Auto {
				if sys.AddrsErr {
					return ra, true, ""
				}
				best, ok := WildRDNSS(sys.Addrs)
				if !ok {
					return ra, true, ""
				}
				ss = append(ss, best.String())
				for _, s := range p.Servers {
					if addr16(s) == best {
						dontcare = "wildcard RDNSS pick equals a static server"
					}
				}
			}
			for _, s := range p.Servers {
				ss = append(ss, addr16(s).String())
			}
			ra.Options = append(ra.Options, Opt{Kind: "rdnss", Lifetime: p.Lifetime, Servers: ss})
		case "dnssl":
			ra.Options = append(ra.Options, Opt{Kind: "dnssl", Lifetime: p.Lifetime, Names: append([]string(nil), p.Names...)})
		case "mtu":
			ra.Options = append(ra.Options, Opt{Kind: "mtu", MTU: p.MTU})
		case "lla":
			if sys.MAC != nil {
				ra.Options = append(ra.Options, Opt{Kind: "slla", MAC: macStr(sys.MAC)})
			}
		case "captive-portal":
			ra.Options = append(ra.Options, Opt{Kind: "captive-portal", URI: p.URI})
		case "pref64":
			ra.Options = append(ra.Options, Opt{Kind: "pref64", Prefix: pfxStr(p.Addr, p.Bits), Lifetime: p.Lifetime, Alt: p.LifetimeAlt})
		}
	}
	return ra, false, dontcare
}

func macStr(m []byte) string {
	var b strings.Builder
	for i, x := range m {
		if i > 0 {
			b.WriteByte(':')
		}
		fmt.Fprintf(&b, "%02x", x)
	}
	return b.String()
}

// DiffRA returns "" when got matches want (honouring Alt on the expected side).
func DiffRA(want, got RA) string {
	w, g := want, got
	w.Options, g.Options = nil, nil
	if !reflect.DeepEqual(w, g) {
		return fmt.Sprintf("header: want %+v got %+v", w, g)
	}
	if len(want.Options) != len(got.Options) {
		return fmt.Sprintf("option count: want %d %v got %d %v", len(want.Options), kinds(want.Options), len(got.Options), kinds(got.Options))
	}
	for i := range want.Options {
		wo, go_ := want.Options[i], got.Options[i]
		alt := wo.Alt
		wo.Alt = 0
		if reflect.DeepEqual(wo, go_) {
			continue
		}
		if alt != 0 {
			wo.Lifetime = alt
			if reflect.DeepEqual(wo, go_) {
				continue
			}
		}
		if len(wo.Servers) == 0 && len(go_.Servers) == 0 && len(wo.Names) == 0 && len(go_.Names) == 0 {
			wo.Servers, go_.Servers, wo.Names, go_.Names = nil, nil, nil, nil
			if reflect.DeepEqual(wo, go_) {
				continue
			}
		}
		return fmt.Sprintf("option %d: want %+v got %+v", i, want.Options[i], got.Options[i])
	}
	return ""
}

func kinds(os []Opt) []string {
	ks := make([]string, len(os))
	for i, o := range os {
		ks[i] = o.Kind
	}
	return ks
}

// CompareBytes orders 16-byte addresses.
func CompareBytes(a, b [16]byte) int { return bytes.Compare(a[:], b[:]) }
