// Package model is the executable specification side of the Tier P monitors: an
// abstract CoreRAD configuration document, its TOML rendering, the acceptance
// predicate and defaults of property C02, the expected router advertisement of
// C01 (with the wildcard rules of C13–C15 and the deprecation formula of C16)
// and the wire-safety predicate of C03.  It is written from the property
// statements and reference.toml and imports nothing from CoreRAD.
package model

import (
	"fmt"
	"strings"
)

// A Dur is a duration-valued key as it appears in a document.  Text is what is
// written in the TOML; when Bad is false, NS is the value a correct parser must
// assign to Text (the generator builds Text from NS, the oracle never parses).
type Dur struct {
	Text string
	NS   int64
	Bad  bool // Text is not a valid duration string
	// Special values understood by some keys.
	Auto, Infinite, Empty bool
}

func (d *Dur) String() string {
	if d == nil {
		return "<absent>"
	}
	return fmt.Sprintf("%q", d.Text)
}

// Doc is an abstract configuration document.
type Doc struct {
	Ifaces []Iface
	Debug  *Debug
	// UnknownTop adds an unknown top-level key.
	UnknownTop bool
}

type Debug struct {
	Address    *string
	AddrValid  Tri // whether Address is a resolvable host:port
	Prometheus bool
	PProf      bool
	Unknown    bool
}

// Tri is a three-valued verdict.
type Tri int

const (
	No Tri = iota
	Yes
	DontCare
)

func (t Tri) String() string { return [...]string{"reject", "accept", "dontcare"}[t] }

type Iface struct {
	Name  *string
	Names []string // nil = key absent
	// Booleans: nil = absent.
	Monitor, Advertise, Verbose, Managed, OtherConfig, UnicastOnly, SourceLLA *bool
	MaxInterval, MinInterval, ReachableTime, RetransmitTimer, DefaultLifetime *Dur
	HopLimit, MTU                                                             *int64
	Preference                                                                *string
	CaptivePortal                                                             *string
	CaptivePortalNorm                                                         string // normalised URI the option must carry
	CaptivePortalOK                                                           Tri

	Prefixes []PrefixSt
	Routes   []RouteSt
	RDNSS    []RDNSSSt
	DNSSL    []DNSSLSt
	PREF64   []PREF64St

	Unknown      bool   // an unknown key in the interface table
	WrongType    string // a key rendered with the wrong TOML type ("" = none)
	DuplicateKey string // a key rendered twice ("" = none)
}

// CIDR is a prefix-valued key.  Class says what kind of string it is, so that
// the oracle needs no parser.
type CIDR struct {
	Text string
	// Facts about Text, provided by the generator.
	Parses    bool // syntactically a CIDR
	V6        bool // address family IPv6 and not IPv4-mapped
	Mapped    bool // IPv6 syntax for an IPv4-mapped address (::ffff:a.b.c.d)
	Canonical bool // no host bits set
	Addr      [16]byte
	Bits      int
}

func (c CIDR) Unspecified() bool { return c.Addr == [16]byte{} }

type PrefixSt struct {
	Prefix             *CIDR // nil or Text=="" = wildcard
	OnLink, Autonomous *bool
	Valid, Preferred   *Dur
	Deprecated         *bool
	Unknown            bool
}

type RouteSt struct {
	Prefix     *CIDR
	Preference *string
	Lifetime   *Dur
	Deprecated *bool
	Unknown    bool
}

// Server is an RDNSS server string.
type Server struct {
	Text   string
	Valid  bool // parses as an IP address
	V6     bool // IPv6, not IPv4-mapped
	Addr   [16]byte
	Zone   bool
	Mapped bool
}

type RDNSSSt struct {
	Lifetime *Dur
	Servers  []Server // nil = absent
	HasKey   bool     // render `servers = []` even when empty
	Unknown  bool
}

type DNSSLSt struct {
	Lifetime *Dur
	Names    []string
	HasKey   bool
	Unknown  bool
}

type PREF64St struct {
	Prefix  *CIDR // nil = absent, Text=="" = empty string
	Unknown bool
}

func q(s string) string {
	var b strings.Builder
	b.WriteByte('"')
	for _, r := range s {
		switch {
		case r == '"':
			b.WriteString(`\"`)
		case r == '\\':
			b.WriteString(`\\`)
		case r < 0x20 || r == 0x7f:
			fmt.Fprintf(&b, `\u%04x`, r)
		default:
			b.WriteRune(r)
		}
	}
	b.WriteByte('"')
	return b.String()
}

func qlist(ss []string) string {
	qs := make([]string, len(ss))
	for i, s := range ss {
		qs[i] = q(s)
	}
	return "[" + strings.Join(qs, ", ") + "]"
}

// TOML renders the document.
func (d *Doc) TOML() string {
	var b strings.Builder
	if d.UnknownTop {
		b.WriteString("bogus_top = 1\n")
	}
	for i := range d.Ifaces {
		d.Ifaces[i].render(&b)
	}
	if d.Debug != nil {
		b.WriteString("[debug]\n")
		if d.Debug.Address != nil {
			fmt.Fprintf(&b, "address = %s\n", q(*d.Debug.Address))
		}
		fmt.Fprintf(&b, "prometheus = %t\npprof = %t\n", d.Debug.Prometheus, d.Debug.PProf)
		if d.Debug.Unknown {
			b.WriteString("verbose = true\n")
		}
	}
	return b.String()
}

func kvBool(b *strings.Builder, ind, k string, v *bool) {
	if v != nil {
		fmt.Fprintf(b, "%s%s = %t\n", ind, k, *v)
	}
}

func kvDur(b *strings.Builder, ind, k string, v *Dur) {
	if v != nil {
		fmt.Fprintf(b, "%s%s = %s\n", ind, k, q(v.Text))
	}
}

func kvStr(b *strings.Builder, ind, k string, v *string) {
	if v != nil {
		fmt.Fprintf(b, "%s%s = %s\n", ind, k, q(*v))
	}
}

func (f *Iface) render(b *strings.Builder) {
	b.WriteString("[[interfaces]]\n")
	kvStr(b, "", "name", f.Name)
	if f.Names != nil {
		fmt.Fprintf(b, "names = %s\n", qlist(f.Names))
	}
	kvBool(b, "", "monitor", f.Monitor)
	kvBool(b, "", "advertise", f.Advertise)
	kvBool(b, "", "verbose", f.Verbose)
	kvDur(b, "", "max_interval", f.MaxInterval)
	kvDur(b, "", "min_interval", f.MinInterval)
	kvBool(b, "", "managed", f.Managed)
	kvBool(b, "", "other_config", f.OtherConfig)
	kvDur(b, "", "reachable_time", f.ReachableTime)
	kvDur(b, "", "retransmit_timer", f.RetransmitTimer)
	if f.HopLimit != nil {
		fmt.Fprintf(b, "hop_limit = %d\n", *f.HopLimit)
	}
	kvDur(b, "", "default_lifetime", f.DefaultLifetime)
	if f.MTU != nil {
		fmt.Fprintf(b, "mtu = %d\n", *f.MTU)
	}
	kvBool(b, "", "source_lla", f.SourceLLA)
	kvStr(b, "", "captive_portal", f.CaptivePortal)
	kvBool(b, "", "unicast_only", f.UnicastOnly)
	kvStr(b, "", "preference", f.Preference)
	if f.Unknown {
		b.WriteString("bogus_key = \"x\"\n")
	}
	switch f.WrongType {
	case "hop_limit":
		b.WriteString("hop_limit = \"64\"\n")
	case "mtu":
		b.WriteString("mtu = \"1500\"\n")
	case "managed":
		b.WriteString("managed = \"true\"\n")
	case "max_interval":
		b.WriteString("max_interval = 600\n")
	case "names":
		b.WriteString("names = \"eth9\"\n")
	case "hop_limit_float":
		b.WriteString("hop_limit = 64.5\n")
	}
	switch f.DuplicateKey {
	case "advertise":
		b.WriteString("advertise = true\nadvertise = true\n")
	case "mtu":
		b.WriteString("mtu = 1500\nmtu = 1500\n")
	}
	for _, p := range f.Prefixes {
		b.WriteString("  [[interfaces.prefix]]\n")
		if p.Prefix != nil {
			fmt.Fprintf(b, "  prefix = %s\n", q(p.Prefix.Text))
		}
		kvBool(b, "  ", "on_link", p.OnLink)
		kvBool(b, "  ", "autonomous", p.Autonomous)
		kvDur(b, "  ", "valid_lifetime", p.Valid)
		kvDur(b, "  ", "preferred_lifetime", p.Preferred)
		kvBool(b, "  ", "deprecated", p.Deprecated)
		if p.Unknown {
			b.WriteString("  lifetime = \"1h\"\n")
		}
	}
	for _, r := range f.Routes {
		b.WriteString("  [[interfaces.route]]\n")
		if r.Prefix != nil {
			fmt.Fprintf(b, "  prefix = %s\n", q(r.Prefix.Text))
		}
		kvStr(b, "  ", "preference", r.Preference)
		kvDur(b, "  ", "lifetime", r.Lifetime)
		kvBool(b, "  ", "deprecated", r.Deprecated)
		if r.Unknown {
			b.WriteString("  on_link = true\n")
		}
	}
	for _, r := range f.RDNSS {
		b.WriteString("  [[interfaces.rdnss]]\n")
		kvDur(b, "  ", "lifetime", r.Lifetime)
		if r.Servers != nil || r.HasKey {
			ss := make([]string, len(r.Servers))
			for i, s := range r.Servers {
				ss[i] = s.Text
			}
			fmt.Fprintf(b, "  servers = %s\n", qlist(ss))
		}
		if r.Unknown {
			b.WriteString("  domain_names = [\"x\"]\n")
		}
	}
	for _, d := range f.DNSSL {
		b.WriteString("  [[interfaces.dnssl]]\n")
		kvDur(b, "  ", "lifetime", d.Lifetime)
		if d.Names != nil || d.HasKey {
			fmt.Fprintf(b, "  domain_names = %s\n", qlist(d.Names))
		}
		if d.Unknown {
			b.WriteString("  servers = [\"::\"]\n")
		}
	}
	for _, p := range f.PREF64 {
		b.WriteString("  [[interfaces.pref64]]\n")
		if p.Prefix != nil {
			fmt.Fprintf(b, "  prefix = %s\n", q(p.Prefix.Text))
		}
		if p.Unknown {
			b.WriteString("  lifetime = \"1h\"\n")
		}
	}
}
