package model

import (
	"fmt"
	"math/rand"
	"net/netip"
	"strings"
)

// A Case is a generated document with its identity.
type Case struct {
	ID         string
	Doc        Doc
	Nontrivial bool // has a key at limit±1 unit or an interaction pair active
}

// DurText renders ns in one of several syntaxes a correct parser must read
// back as exactly ns.
func DurText(ns int64, style int) string {
	neg := ns < 0
	a := ns
	if neg {
		a = -a
	}
	var s string
	switch {
	case a == 0:
		s = [...]string{"0s", "0", "0ms", "0h0m0s"}[style%4]
	case style%5 == 1 && a%Second == 0:
		sec := a / Second
		s = fmt.Sprintf("%dh%dm%ds", sec/3600, sec/60%60, sec%60)
	case style%5 == 2 && a%1e6 == 0:
		s = fmt.Sprintf("%dms", a/1e6)
	case style%5 == 3 && a%1e6 == 0:
		s = fmt.Sprintf("%d.%03ds", a/Second, a%Second/1e6)
	case style%5 == 4:
		s = fmt.Sprintf("%dns", a)
	case a%Second == 0:
		s = fmt.Sprintf("%ds", a/Second)
	case a%1e6 == 0:
		s = fmt.Sprintf("%dms", a/1e6)
	default:
		s = fmt.Sprintf("%dns", a)
	}
	if neg {
		s = "-" + s
	}
	return s
}

func D(ns int64) *Dur          { return &Dur{Text: DurText(ns, 0), NS: ns} }
func DS(ns int64, st int) *Dur { return &Dur{Text: DurText(ns, st), NS: ns} }
func DAuto() *Dur              { return &Dur{Text: "auto", Auto: true} }
func DInf() *Dur               { return &Dur{Text: "infinite", Infinite: true} }
func DEmpty() *Dur             { return &Dur{Text: "", Empty: true} }
func DBad(t string) *Dur       { return &Dur{Text: t, Bad: true} }
func B(b bool) *bool           { return &b }
func S(s string) *string       { return &s }
func I(i int64) *int64         { return &i }

// BadDurations are strings time.ParseDuration must refuse.
var BadDurations = []string{"abc", "10", "1d", "--1s", "1 s", "s", ".", "1h-", "2562048h", "1e3s", " 5s"}

// MkCIDR derives the syntactic facts of a CIDR string.
func MkCIDR(text string) *CIDR {
	c := &CIDR{Text: text}
	p, err := netip.ParsePrefix(text)
	if err != nil {
		return c
	}
	c.Parses = true
	a := p.Addr()
	c.V6 = a.Is6() && !a.Is4In6()
	c.Mapped = a.Is4In6()
	c.Canonical = p == p.Masked()
	c.Addr = a.As16()
	c.Bits = p.Bits()
	return c
}

// MkServer derives the syntactic facts of an address string.
func MkServer(text string) Server {
	s := Server{Text: text}
	a, err := netip.ParseAddr(text)
	if err != nil {
		return s
	}
	s.Valid = true
	s.V6 = a.Is6() && !a.Is4In6()
	s.Mapped = a.Is4In6()
	s.Zone = a.Zone() != ""
	s.Addr = a.WithZone("").As16()
	return s
}

// CaptivePortals are (input, normalised) URIs known to be accepted verbatim.
var CaptivePortals = [][2]string{
	{"http://router/portal", "http://router/portal"},
	{"https://portal.example.com/login?x=1", "https://portal.example.com/login?x=1"},
	{"urn:ietf:params:capport:unrestricted", "urn:ietf:params:capport:unrestricted"},
	{"https://example.net/", "https://example.net/"},
}

var ValidDebug = []string{"127.0.0.1:9430", "[::1]:9430", ":9430", "0.0.0.0:0", "[::]:65535"}
var InvalidDebug = []string{"nope", "127.0.0.1", "127.0.0.1:99999", "[::1", "1.2.3.4:-1", "::1:9430"}

func baseIface() Iface {
	return Iface{Name: S("eth0"), Advertise: B(true)}
}

func oneIface(f Iface) Doc { return Doc{Ifaces: []Iface{f}} }

var prefixPool = []string{
	"", "::/64", "2001:db8::/64", "2001:db8:1::/64", "2001:db8::/48", "2001:db8::/32", "fd00::/8", "fdaa:bbbb:cccc::/48",
	"2001:db8:0:1::/64", "2001:db8::/127", "fe80::/64", "::/0", "::/63", "::/65", "::/128", "2001:db8::1/128",
	"2001:db8::1/64", "2001:db8::/129", "192.0.2.0/24", "::ffff:192.0.2.0/120", "2001:db8::", "garbage", "2001:db8::/", "/64",
	"2001:DB8::/64", "2001:db8:0:0::/64", "fe80::%eth0/64", "0:0:0:1::/64",
}

var routePool = []string{
	"", "::/0", "2001:db8::/64", "2001:db8:ffff::/64", "2001:db8::/48", "2001:db8::/32", "fd00::/8", "2001:db8::1/128",
	"::/64", "::/1", "::/128", "2001:db8::1/64", "10.0.0.0/8", "::ffff:10.0.0.0/104", "x", "2001:db8:ffff::/48", "::1/128",
}

var pref64Pool = []string{
	"", "64:ff9b::/96", "64:ff9b:1::/48", "2001:db8:64::/64", "2001:db8:64::/56", "2001:db8::/40", "2001:db8::/32",
	"2001:db8::/33", "64:ff9b::/95", "64:ff9b::/97", "64:ff9b::/128", "::/0", "::/96", "192.0.2.0/24", "10.0.0.0/32",
	"::ffff:0.0.0.0/96", "64:ff9b::1/96", "2001:db8:64::1/64", "garbage", "64:ff9b::", "64:ff9b::/129", "2001:db8:ffff:ffff::/64",
}

var serverPool = []string{
	"::", "2001:db8::1", "2001:db8::2", "fd00::53", "fe80::1", "2001:DB8::1", "2001:db8:0::1", "192.0.2.1", "::ffff:192.0.2.1",
	"x", "", "2001:db8::1/64", "::1", "ff02::1",
	// zones mean something on this machine only and cannot be carried in an RA
	"fe80::1%eth0", "::%eth0", "2001:db8::1%eth1",
}

var namePool = []string{"example.com", "lan", "foo.example.com", "a.b.c.example.org", "corp.example.net", "EXAMPLE.com"}

// lifetime hazards for prefix/route/rdnss/dnssl keys.
func lifetimeValues() []*Dur {
	vs := []*Dur{nil, DAuto(), DInf(), DEmpty(), D(0), D(-1), D(1), D(-Second), D(Second), D(1e6), D(999999999), D(-3600 * Second),
		D(4 * 3600 * Second), D(24 * 3600 * Second), D(Infinity - Second), D(Infinity), D(Infinity + Second), D(Infinity + 1),
		DS(2562047*3600*Second, 1), D(1500 * 1e6), DS(90*Second, 1), DS(2500*1e6, 3)}
	for _, b := range []string{"abc", "10", "1d"} {
		vs = append(vs, DBad(b))
	}
	return vs
}

func durID(d *Dur) string {
	if d == nil {
		return "absent"
	}
	return d.Text
}

// BoundaryDocs is the seed-independent one-factor sweep: for every key every
// value in {limit−1 unit, limit, limit+1 unit, typical, syntactically bad} with
// all else default.
func BoundaryDocs() []Case {
	var out []Case
	add := func(id string, f Iface) {
		out = append(out, Case{ID: "sweep/" + id, Doc: oneIface(f), Nontrivial: true})
	}
	ms := int64(1e6)
	for st := 0; st < 5; st++ {
		for _, ns := range []int64{3 * Second, 4*Second - ms, 4 * Second, 4*Second + ms, 5 * Second, 8 * Second, 9*Second - ms, 9 * Second, 9*Second + ms,
			10 * Second, 100 * Second, 200 * Second, 600 * Second, 1799 * Second, 1800*Second - ms, 1800 * Second, 1800*Second + ms, 1801 * Second, 0, -5 * Second, 3600 * Second, 4*Second - 1, 1800*Second + 1} {
			f := baseIface()
			f.MaxInterval = DS(ns, st)
			add(fmt.Sprintf("max_interval/%s", f.MaxInterval.Text), f)
		}
	}
	for _, d := range []*Dur{DEmpty(), DInf()} {
		f := baseIface()
		f.MaxInterval = d
		add("max_interval/special-"+durID(d), f)
	}
	for _, b := range BadDurations {
		f := baseIface()
		f.MaxInterval = DBad(b)
		add("max_interval/bad-"+b, f)
	}
	for st := 0; st < 5; st++ {
		for _, ns := range []int64{2 * Second, 3*Second - ms, 3 * Second, 3*Second + ms, 100 * Second, 198 * Second, 449 * Second, 450*Second - ms, 450 * Second, 450*Second + ms, 451 * Second, 600 * Second, 0, -3 * Second, 3*Second - 1, 450*Second + 1} {
			f := baseIface()
			f.MinInterval = DS(ns, st)
			add(fmt.Sprintf("min_interval/%s", f.MinInterval.Text), f)
		}
	}
	for _, d := range []*Dur{DEmpty(), DAuto(), DInf(), DBad("abc"), DBad("10"), DBad("AUTO")} {
		f := baseIface()
		f.MinInterval = d
		add("min_interval/special-"+durID(d), f)
	}
	for _, key := range []string{"reachable_time", "retransmit_timer"} {
		for st := 0; st < 5; st++ {
			for _, ns := range []int64{-Second, -ms, -1, 0, 1, ms, Second, 30 * Second, 3600*Second - ms, 3600 * Second, 3600*Second + ms, 3600*Second + 1, 7200 * Second} {
				f := baseIface()
				d := DS(ns, st)
				if key == "reachable_time" {
					f.ReachableTime = d
				} else {
					f.RetransmitTimer = d
				}
				add(fmt.Sprintf("%s/%s", key, d.Text), f)
			}
		}
		for _, d := range []*Dur{DEmpty(), DBad("abc"), DBad("10"), DBad("1d")} {
			f := baseIface()
			if key == "reachable_time" {
				f.ReachableTime = d
			} else {
				f.RetransmitTimer = d
			}
			add(fmt.Sprintf("%s/special-%s", key, durID(d)), f)
		}
	}
	for _, h := range []int64{-1000, -1, 0, 1, 63, 64, 65, 128, 254, 255, 256, 257, 1000, 65536} {
		f := baseIface()
		f.HopLimit = I(h)
		add(fmt.Sprintf("hop_limit/%d", h), f)
	}
	for _, m := range []int64{-1, 0, 1, 68, 1279, 1280, 1500, 9000, 65535, 65536, 65537, 1 << 31} {
		f := baseIface()
		f.MTU = I(m)
		add(fmt.Sprintf("mtu/%d", m), f)
	}
	for st := 0; st < 5; st++ {
		for _, ns := range []int64{0, 1, Second, 599 * Second, 600*Second - ms, 600 * Second, 600*Second + ms, 601 * Second, 1800 * Second, 8999 * Second, 9000*Second - ms, 9000 * Second, 9000*Second + ms, 9000*Second + 1, 9001 * Second, -Second, -600 * Second, 65535 * Second, 65536 * Second} {
			f := baseIface()
			f.DefaultLifetime = DS(ns, st)
			add(fmt.Sprintf("default_lifetime/%s", f.DefaultLifetime.Text), f)
		}
	}
	for _, d := range []*Dur{DEmpty(), DAuto(), DInf(), DBad("abc"), DBad("10")} {
		f := baseIface()
		f.DefaultLifetime = d
		add("default_lifetime/special-"+durID(d), f)
	}
	for _, p := range []string{"", "low", "medium", "high", "LOW", "Medium", "x", "reserved", " high"} {
		f := baseIface()
		f.Preference = S(p)
		add("preference/"+p, f)
	}
	for _, k := range []string{"monitor", "advertise", "verbose", "managed", "other_config", "unicast_only", "source_lla"} {
		for _, val := range []bool{false, true} {
			f := baseIface()
			switch k {
			case "monitor":
				f.Monitor = B(val)
			case "advertise":
				f.Advertise = B(val)
			case "verbose":
				f.Verbose = B(val)
			case "managed":
				f.Managed = B(val)
			case "other_config":
				f.OtherConfig = B(val)
			case "unicast_only":
				f.UnicastOnly = B(val)
			case "source_lla":
				f.SourceLLA = B(val)
			}
			add(fmt.Sprintf("%s/%t", k, val), f)
		}
	}
	{
		f := baseIface()
		f.Advertise = nil
		add("neither-advertise-nor-monitor", f)
		f = baseIface()
		f.Advertise = nil
		f.Monitor = B(true)
		f.Verbose = B(true)
		add("monitor-verbose", f)
		f = baseIface()
		f.Advertise = nil
		f.HopLimit = I(300)
		add("neither-but-invalid-hop-limit", f)
	}
	for _, cp := range CaptivePortals {
		f := baseIface()
		f.CaptivePortal, f.CaptivePortalNorm, f.CaptivePortalOK = S(cp[0]), cp[1], Yes
		add("captive_portal/"+cp[0], f)
	}
	{
		f := baseIface()
		f.CaptivePortal = S("")
		add("captive_portal/empty", f)
	}
	// prefix stanza
	for _, p := range prefixPool {
		f := baseIface()
		f.Prefixes = []PrefixSt{{Prefix: MkCIDR(p)}}
		add("prefix.prefix/"+p, f)
	}
	{
		f := baseIface()
		f.Prefixes = []PrefixSt{{}}
		add("prefix.prefix/absent", f)
	}
	for _, lv := range lifetimeValues() {
		f := baseIface()
		f.Prefixes = []PrefixSt{{Prefix: MkCIDR("2001:db8::/64"), Valid: lv}}
		add("prefix.valid_lifetime/"+durID(lv), f)
		f = baseIface()
		f.Prefixes = []PrefixSt{{Prefix: MkCIDR("2001:db8::/64"), Preferred: lv}}
		add("prefix.preferred_lifetime/"+durID(lv), f)
		f = baseIface()
		f.Routes = []RouteSt{{Prefix: MkCIDR("2001:db8::/64"), Lifetime: lv}}
		add("route.lifetime/"+durID(lv), f)
		f = baseIface()
		f.RDNSS = []RDNSSSt{{Lifetime: lv, Servers: []Server{MkServer("2001:db8::1")}}}
		add("rdnss.lifetime/"+durID(lv), f)
		f = baseIface()
		f.DNSSL = []DNSSLSt{{Lifetime: lv, Names: []string{"example.com"}}}
		add("dnssl.lifetime/"+durID(lv), f)
	}
	for _, v := range []bool{false, true} {
		f := baseIface()
		f.Prefixes = []PrefixSt{{Prefix: MkCIDR("2001:db8::/64"), OnLink: B(v), Autonomous: B(!v), Deprecated: B(v)}}
		add(fmt.Sprintf("prefix.flags/%t", v), f)
	}
	for _, p := range routePool {
		f := baseIface()
		f.Routes = []RouteSt{{Prefix: MkCIDR(p)}}
		add("route.prefix/"+p, f)
	}
	{
		f := baseIface()
		f.Routes = []RouteSt{{}}
		add("route.prefix/absent", f)
	}
	for _, p := range []string{"", "low", "medium", "high", "HIGH", "x"} {
		f := baseIface()
		f.Routes = []RouteSt{{Prefix: MkCIDR("2001:db8::/64"), Preference: S(p)}}
		add("route.preference/"+p, f)
	}
	for _, s := range serverPool {
		f := baseIface()
		f.RDNSS = []RDNSSSt{{Servers: []Server{MkServer(s)}}}
		add("rdnss.servers/"+s, f)
	}
	{
		f := baseIface()
		f.RDNSS = []RDNSSSt{{}}
		add("rdnss.servers/absent", f)
		f = baseIface()
		f.RDNSS = []RDNSSSt{{HasKey: true}}
		add("rdnss.servers/emptylist", f)
		f = baseIface()
		f.DNSSL = []DNSSLSt{{}}
		add("dnssl.names/absent", f)
		f = baseIface()
		f.DNSSL = []DNSSLSt{{HasKey: true}}
		add("dnssl.names/emptylist", f)
		f = baseIface()
		f.DNSSL = []DNSSLSt{{Names: []string{"a.example", "a.example"}}}
		add("dnssl.names/dup", f)
		f = baseIface()
		f.DNSSL = []DNSSLSt{{Names: []string{"a.example", "A.example"}}}
		add("dnssl.names/case-differs", f)
		f = baseIface()
		f.DNSSL = []DNSSLSt{{Names: []string{"a.example", "b.example", "c.example"}}}
		add("dnssl.names/three", f)
	}
	for _, p := range pref64Pool {
		f := baseIface()
		f.PREF64 = []PREF64St{{Prefix: MkCIDR(p)}}
		add("pref64.prefix/"+p, f)
	}
	{
		f := baseIface()
		f.PREF64 = []PREF64St{{}}
		add("pref64.prefix/absent", f)
	}
	// every prefix length 0…128 (canonical), so that exactly the NAT64 sizes are accepted
	for bits := 0; bits <= 128; bits++ {
		a := netip.MustParseAddr("2001:db8:aaaa:bbbb:cccc:dddd:eeee:ffff")
		pf, _ := a.Prefix(bits)
		f := baseIface()
		f.PREF64 = []PREF64St{{Prefix: MkCIDR(pf.String())}}
		add(fmt.Sprintf("pref64.length/%d", bits), f)
	}
	// structure
	for _, wt := range []string{"hop_limit", "mtu", "managed", "max_interval", "names", "hop_limit_float"} {
		f := baseIface()
		if wt == "names" {
			f.Name = nil
		}
		f.WrongType = wt
		add("wrongtype/"+wt, f)
	}
	for _, dk := range []string{"advertise", "mtu"} {
		f := baseIface()
		if dk == "advertise" {
			f.Advertise = nil
		}
		f.DuplicateKey = dk
		add("dupkey/"+dk, f)
	}
	{
		f := baseIface()
		f.Unknown = true
		add("unknown/iface", f)
		f = baseIface()
		f.Prefixes = []PrefixSt{{Unknown: true}}
		add("unknown/prefix", f)
		f = baseIface()
		f.Routes = []RouteSt{{Unknown: true}}
		add("unknown/route", f)
		f = baseIface()
		f.RDNSS = []RDNSSSt{{Unknown: true}}
		add("unknown/rdnss", f)
		f = baseIface()
		f.DNSSL = []DNSSLSt{{Names: []string{"x.example"}, Unknown: true}}
		add("unknown/dnssl", f)
		f = baseIface()
		f.PREF64 = []PREF64St{{Unknown: true}}
		add("unknown/pref64", f)
		f = baseIface()
		f.Monitor, f.Advertise = B(true), nil
		f.Prefixes = []PrefixSt{{Unknown: true}}
		add("unknown/prefix-on-monitor", f)
	}
	// names
	for i, c := range []struct {
		name  *string
		names []string
	}{
		{nil, nil}, {S(""), nil}, {S("eth0"), nil}, {nil, []string{}}, {nil, []string{"eth0"}}, {nil, []string{"eth0", "eth1"}},
		{S("eth0"), []string{"eth1"}}, {S("eth0"), []string{}}, {S(""), []string{"eth1"}}, {nil, []string{"eth0", "eth0"}},
		{nil, []string{"eth0", "eth1", "eth2", "eth0"}}, {S("a b"), nil}, {S("ETH0"), nil},
	} {
		f := baseIface()
		f.Name, f.Names = c.name, c.names
		add(fmt.Sprintf("names/%d", i), f)
	}
	// documents
	doc := func(id string, d Doc) { out = append(out, Case{ID: "sweep/" + id, Doc: d, Nontrivial: true}) }
	doc("doc/empty", Doc{})
	doc("doc/unknown-top", Doc{Ifaces: []Iface{baseIface()}, UnknownTop: true})
	doc("doc/debug-only", Doc{Debug: &Debug{Address: S("127.0.0.1:9430"), AddrValid: Yes}})
	for _, a := range ValidDebug {
		doc("debug/valid/"+a, Doc{Ifaces: []Iface{baseIface()}, Debug: &Debug{Address: S(a), AddrValid: Yes, Prometheus: true}})
		doc("debug/valid-pprof/"+a, Doc{Ifaces: []Iface{baseIface()}, Debug: &Debug{Address: S(a), AddrValid: Yes, PProf: true}})
	}
	for _, a := range InvalidDebug {
		doc("debug/invalid/"+a, Doc{Ifaces: []Iface{baseIface()}, Debug: &Debug{Address: S(a), AddrValid: No, Prometheus: true}})
	}
	doc("debug/noaddr-flags", Doc{Ifaces: []Iface{baseIface()}, Debug: &Debug{Prometheus: true, PProf: true}})
	doc("debug/emptyaddr-flags", Doc{Ifaces: []Iface{baseIface()}, Debug: &Debug{Address: S(""), Prometheus: true, PProf: true}})
	doc("debug/unknown", Doc{Ifaces: []Iface{baseIface()}, Debug: &Debug{Address: S(":9430"), AddrValid: Yes, Unknown: true}})
	return out
}

// InteractionDocs is the seed-independent set of named interactions, each
// enumerated on a small grid.
func InteractionDocs() []Case {
	var out []Case
	add := func(id string, d Doc) { out = append(out, Case{ID: "grid/" + id, Doc: d, Nontrivial: true}) }
	ms := int64(1e6)
	// min × max
	for _, max := range []int64{4 * Second, 4500 * ms, 5 * Second, 8 * Second, 8999 * ms, 9 * Second, 10 * Second, 12 * Second, 100 * Second, 600 * Second, 1799 * Second, 1800 * Second, 1801 * Second} {
		upper := (max * 3 / 4) / Second * Second
		mins := []int64{3*Second - ms, 3 * Second, 3*Second + ms, upper - Second, upper - ms, upper, upper + ms, upper + Second, max * 3 / 4, max}
		for _, mn := range mins {
			f := baseIface()
			f.MaxInterval, f.MinInterval = D(max), D(mn)
			add(fmt.Sprintf("minmax/%s/%s", f.MaxInterval.Text, f.MinInterval.Text), oneIface(f))
		}
		for _, d := range []*Dur{nil, DAuto(), DEmpty()} {
			f := baseIface()
			f.MaxInterval, f.MinInterval = D(max), d
			add(fmt.Sprintf("minmax/%s/default-%s", f.MaxInterval.Text, durID(d)), oneIface(f))
		}
		// default_lifetime × max
		for _, lt := range []int64{0, max - Second, max - ms, max, max + ms, 3 * max, 9000 * Second, 9000*Second + ms} {
			f := baseIface()
			f.MaxInterval, f.DefaultLifetime = D(max), D(lt)
			add(fmt.Sprintf("lifemax/%s/%s", f.MaxInterval.Text, f.DefaultLifetime.Text), oneIface(f))
		}
		for _, d := range []*Dur{nil, DAuto(), DEmpty()} {
			f := baseIface()
			f.MaxInterval, f.DefaultLifetime = D(max), d
			f.RDNSS = []RDNSSSt{{Servers: []Server{MkServer("2001:db8::53")}}}
			f.DNSSL = []DNSSLSt{{Names: []string{"lan"}, Lifetime: DAuto()}}
			f.PREF64 = []PREF64St{{}}
			add(fmt.Sprintf("lifemax/%s/default-%s", f.MaxInterval.Text, durID(d)), oneIface(f))
		}
	}
	// every whole-second max: defaults (min, lifetime, pref64 lifetime)
	for s := int64(4); s <= 1800; s++ {
		f := baseIface()
		f.MaxInterval = D(s * Second)
		f.PREF64 = []PREF64St{{}}
		f.RDNSS = []RDNSSSt{{}}
		add(fmt.Sprintf("maxdefaults/%d", s), oneIface(f))
	}
	// preferred × valid × deprecated
	lts := []*Dur{nil, DAuto(), DInf(), DEmpty(), D(-2 * Second), D(-Second), D(0), D(1), D(Second), D(2 * Second), D(4 * 3600 * Second), D(24 * 3600 * Second), D(24*3600*Second + Second), D(Infinity - Second), D(Infinity + Second)}
	for _, v := range lts {
		for _, p := range lts {
			for _, dep := range []*bool{nil, B(true)} {
				f := baseIface()
				f.Prefixes = []PrefixSt{{Prefix: MkCIDR("2001:db8::/64"), Valid: v, Preferred: p, Deprecated: dep}}
				add(fmt.Sprintf("prefvalid/%s/%s/%v", durID(v), durID(p), dep != nil), oneIface(f))
			}
		}
	}
	for _, l := range lts {
		for _, dep := range []*bool{nil, B(true), B(false)} {
			f := baseIface()
			f.Routes = []RouteSt{{Prefix: MkCIDR("2001:db8:1::/48"), Lifetime: l, Deprecated: dep}}
			add(fmt.Sprintf("routelife/%s/%v", durID(l), dep), oneIface(f))
		}
	}
	// overlap matrix
	ov := []string{"", "::/64", "2001:db8::/64", "2001:db8::/48", "2001:db8:0:1::/64", "2001:db8:1::/64", "2001:db8::/32", "fd00::/8", "fd00:1::/32", "2001:db8::/127"}
	for i, a := range ov {
		for j, b := range ov {
			f := baseIface()
			f.Prefixes = []PrefixSt{{Prefix: MkCIDR(a)}, {Prefix: MkCIDR(b)}}
			add(fmt.Sprintf("overlap/prefix/%d/%d", i, j), oneIface(f))
		}
	}
	ovr := []string{"", "::/0", "2001:db8::/64", "2001:db8::/48", "2001:db8:0:1::/64", "2001:db8:1::/64", "2001:db8::/32", "2001:db8::1/128", "2001:db8::/127", "fd00::/8"}
	for i, a := range ovr {
		for j, b := range ovr {
			f := baseIface()
			f.Routes = []RouteSt{{Prefix: MkCIDR(a)}, {Prefix: MkCIDR(b)}}
			add(fmt.Sprintf("overlap/route/%d/%d", i, j), oneIface(f))
		}
	}
	// three prefixes where only the outer pair overlaps
	{
		f := baseIface()
		f.Prefixes = []PrefixSt{{Prefix: MkCIDR("2001:db8::/48")}, {Prefix: MkCIDR("fd00::/64")}, {Prefix: MkCIDR("2001:db8:0:5::/64")}}
		add("overlap/prefix/outer-pair", oneIface(f))
		f = baseIface()
		f.Routes = []RouteSt{{Prefix: MkCIDR("2001:db8::/48")}, {Prefix: MkCIDR("")}, {Prefix: MkCIDR("2001:db8:0:5::/64")}}
		add("overlap/route/outer-pair-with-wildcard", oneIface(f))
	}
	// names × uniqueness across stanzas
	nameSets := [][]Iface{
		{{Name: S("eth0")}, {Name: S("eth1")}},
		{{Name: S("eth0")}, {Name: S("eth0")}},
		{{Name: S("eth0")}, {Names: []string{"eth1", "eth2"}}},
		{{Name: S("eth0")}, {Names: []string{"eth1", "eth0"}}},
		{{Names: []string{"eth1", "eth2"}}, {Names: []string{"eth3", "eth2"}}},
		{{Names: []string{"eth1", "eth2"}}, {Names: []string{"eth3", "eth4"}}, {Name: S("eth5")}},
		{{Names: []string{"eth1", "eth2"}}, {Names: []string{"eth3", "eth4"}}, {Name: S("eth4")}},
		{{Name: S("eth0")}, {Name: S("ETH0")}},
	}
	for i, set := range nameSets {
		for k := 0; k < 3; k++ {
			var d Doc
			for j, f := range set {
				switch (k + j) % 3 {
				case 0:
					f.Advertise = B(true)
				case 1:
					f.Monitor = B(true)
				}
				d.Ifaces = append(d.Ifaces, f)
			}
			add(fmt.Sprintf("names/%d/%d", i, k), d)
		}
	}
	// monitor × advertise
	for _, m := range []*bool{nil, B(false), B(true)} {
		for _, a := range []*bool{nil, B(false), B(true)} {
			f := baseIface()
			f.Monitor, f.Advertise = m, a
			f.HopLimit = I(32)
			f.Prefixes = []PrefixSt{{}}
			add(fmt.Sprintf("monadv/%v/%v", bptr(m), bptr(a)), oneIface(f))
		}
	}
	// rdnss server sets
	sets := [][]string{
		{"::"}, {"::", "::"}, {"::", "2001:db8::1"}, {"2001:db8::1", "::"}, {"2001:db8::2", "2001:db8::1"}, {"2001:db8::1", "2001:db8::1"},
		{"2001:db8::1", "2001:DB8:0::1"}, {"2001:db8::1", "0::", "fd00::1"}, {"2001:db8::3", "2001:db8::1", "2001:db8::2"},
		{"::", "2001:db8::1", "0:0::"}, {"2001:db8::1", "192.0.2.1"}, {"fe80::1", "fd00::1", "2001:db8::1"},
		{"fe80::1%eth0", "fe80::1%eth1"}, {"::", "::%eth0"}, {"::%eth0", "2001:db8::1"}, {"fe80::1%eth0", "fe80::1"},
	}
	for i, set := range sets {
		f := baseIface()
		var ss []Server
		for _, s := range set {
			ss = append(ss, MkServer(s))
		}
		f.RDNSS = []RDNSSSt{{Servers: ss}}
		add(fmt.Sprintf("rdnss/%d", i), oneIface(f))
	}
	// multiple stanzas of every kind together
	{
		f := baseIface()
		f.Prefixes = []PrefixSt{{}, {Prefix: MkCIDR("2001:db8::/64")}, {Prefix: MkCIDR("fd00:1::/64"), Deprecated: B(true), Valid: D(600 * Second), Preferred: D(300 * Second)}}
		f.Routes = []RouteSt{{}, {Prefix: MkCIDR("2001:db8:ffff::/64"), Preference: S("high")}, {Prefix: MkCIDR("fd00:2::/48"), Deprecated: B(true), Lifetime: D(900 * Second)}}
		f.RDNSS = []RDNSSSt{{}, {Servers: []Server{MkServer("2001:db8::1")}}}
		f.DNSSL = []DNSSLSt{{Names: []string{"a.example"}}, {Names: []string{"b.example", "c.example"}, Lifetime: DInf()}}
		f.PREF64 = []PREF64St{{}, {Prefix: MkCIDR("2001:db8:64::/56")}}
		f.MTU = I(1500)
		f.CaptivePortal, f.CaptivePortalNorm, f.CaptivePortalOK = S(CaptivePortals[0][0]), CaptivePortals[0][1], Yes
		add("all-kinds", oneIface(f))
		g := f
		g.Name, g.Names = nil, []string{"eth0", "eth1", "eth2"}
		add("all-kinds-names", oneIface(g))
	}
	return out
}

func bptr(b *bool) string {
	if b == nil {
		return "absent"
	}
	return fmt.Sprint(*b)
}

// Gen draws random structured documents.
type Gen struct {
	R *rand.Rand
	// Hazard is the probability that a drawn value comes from the hazardous
	// part of its domain (boundary±1, negative, syntactically bad).
	Hazard float64
	// ValidOnly restricts draws to values C02 accepts (used by C01/C17).
	ValidOnly bool
}

func (g *Gen) p(x float64) bool { return g.R.Float64() < x }
func (g *Gen) hz() bool         { return !g.ValidOnly && g.p(g.Hazard) }

func (g *Gen) pick(ss []string) string { return ss[g.R.Intn(len(ss))] }

func (g *Gen) optBool(pp float64) *bool {
	if !g.p(pp) {
		return nil
	}
	return B(g.p(0.5))
}

func (g *Gen) dur(ns int64) *Dur { return DS(ns, g.R.Intn(5)) }

// interval in [lo,hi] whole seconds mostly, ms sometimes.
func (g *Gen) between(lo, hi int64) int64 {
	if hi < lo {
		return lo
	}
	if g.p(0.25) {
		return lo
	}
	if g.p(0.25) {
		return hi
	}
	span := (hi - lo) / Second
	v := lo
	if span > 0 {
		v = lo + g.R.Int63n(span+1)*Second
	}
	if g.p(0.15) && v+500*1e6 <= hi {
		v += 500 * 1e6
	}
	return v
}

func (g *Gen) lifetime(allowZero bool) *Dur {
	if g.hz() {
		vs := lifetimeValues()
		return vs[g.R.Intn(len(vs))]
	}
	switch g.R.Intn(8) {
	case 0:
		return nil
	case 1:
		return DAuto()
	case 2:
		return DInf()
	case 3:
		if allowZero {
			if g.p(0.5) {
				return DEmpty()
			}
			return D(0)
		}
	}
	choices := []int64{Second, 60 * Second, 1800 * Second, 3600 * Second, 4 * 3600 * Second, 24 * 3600 * Second, 30 * 24 * 3600 * Second, Infinity - Second, 1500 * 1e6}
	return g.dur(choices[g.R.Intn(len(choices))])
}

var validPrefixes = []string{"2001:db8::/64", "2001:db8:1::/64", "2001:db8:2::/56", "fd00:aaaa::/48", "fdbb::/64", "2001:db8:ffff:1::/64", "2001:db9:8000::/33", "fe80::/64", "2001:db8:0:5::/127", "0:0:0:1::/64"}
var validRoutes = []string{"2001:db8:100::/48", "2001:db8:200::/64", "fd10::/16", "2001:db8:300::1/128", "2001:db8:400::/40", "::1/128", "2001:db8:500::/127", "4000::/2"}
var validServers = []string{"2001:db8::53", "2001:db8::54", "fd00::53", "fe80::53", "2001:4860:4860::8888", "2606:4700:4700::1111"}
var validPref64 = []string{"64:ff9b::/96", "64:ff9b:1::/48", "2001:db8:64::/64", "2001:db8:6400::/56", "2001:db8::/40", "2001:db8::/32"}

// Iface draws one interface stanza (without a name).
func (g *Gen) Iface() Iface {
	var f Iface
	mode := g.R.Intn(10)
	switch {
	case mode < 7:
		f.Advertise = B(true)
	case mode < 8:
		f.Monitor = B(true)
		if g.p(0.5) {
			f.Verbose = B(true)
			return f
		}
	case mode < 9:
		// neither
		if g.p(0.3) {
			f.Advertise = B(false)
		}
	default:
		if g.hz() {
			f.Advertise, f.Monitor = B(true), B(true)
		} else {
			f.Advertise = B(true)
		}
	}
	f.Verbose = g.optBool(0.3)
	f.Managed = g.optBool(0.4)
	f.OtherConfig = g.optBool(0.4)
	f.UnicastOnly = g.optBool(0.2)
	f.SourceLLA = g.optBool(0.4)

	max := 600 * Second
	if g.p(0.6) {
		max = g.between(4*Second, 1800*Second)
		f.MaxInterval = g.dur(max)
		if g.hz() {
			bad := []int64{4*Second - 1e6, 1800*Second + 1e6, 3 * Second, 1801 * Second, 0, -max}
			f.MaxInterval = g.dur(bad[g.R.Intn(len(bad))])
			if g.p(0.2) {
				f.MaxInterval = DBad(g.pick(BadDurations))
			}
		}
	} else if g.p(0.1) {
		f.MaxInterval = DEmpty()
	}
	upper := (max * 3 / 4) / Second * Second
	switch g.R.Intn(5) {
	case 0:
	case 1:
		f.MinInterval = DAuto()
	case 2:
		f.MinInterval = DEmpty()
	default:
		f.MinInterval = g.dur(g.between(3*Second, upper))
		if g.hz() {
			bad := []int64{3*Second - 1e6, upper + 1e6, upper + Second, 2 * Second, max, 0}
			f.MinInterval = g.dur(bad[g.R.Intn(len(bad))])
		}
	}
	if g.p(0.4) {
		f.ReachableTime = g.dur(g.between(0, 3600*Second))
		if g.p(0.3) {
			f.ReachableTime = g.dur(int64(g.R.Intn(3600000)) * 1e6)
		}
		if g.hz() {
			f.ReachableTime = g.dur([]int64{-1e6, 3600*Second + 1e6, -Second, 7200 * Second}[g.R.Intn(4)])
		}
	}
	if g.p(0.4) {
		f.RetransmitTimer = g.dur(g.between(0, 3600*Second))
		if g.p(0.3) {
			f.RetransmitTimer = g.dur(int64(g.R.Intn(3600000)) * 1e6)
		}
		if g.hz() {
			f.RetransmitTimer = g.dur([]int64{-1e6, 3600*Second + 1e6, -Second, 7200 * Second}[g.R.Intn(4)])
		}
	}
	if g.p(0.5) {
		f.HopLimit = I(int64(g.R.Intn(256)))
		if g.hz() {
			f.HopLimit = I([]int64{-1, 256, 1000, -64}[g.R.Intn(4)])
		}
	}
	switch g.R.Intn(6) {
	case 0:
		f.DefaultLifetime = DAuto()
	case 1:
		f.DefaultLifetime = DEmpty()
	case 2:
		f.DefaultLifetime = D(0)
	case 3, 4:
		f.DefaultLifetime = g.dur(g.between((max+Second-1)/Second*Second, 9000*Second))
		if g.hz() {
			bad := []int64{max - 1e6, 9000*Second + 1e6, 9001 * Second, -Second, 1, Second}
			f.DefaultLifetime = g.dur(bad[g.R.Intn(len(bad))])
		}
	}
	if g.p(0.4) {
		f.Preference = S(g.pick([]string{"", "low", "medium", "high"}))
		if g.hz() {
			f.Preference = S(g.pick([]string{"LOW", "x", "reserved"}))
		}
	}
	if g.p(0.4) {
		f.MTU = I([]int64{0, 1280, 1500, 9000, 65535, 65536, 1, 68}[g.R.Intn(8)])
		if g.hz() {
			f.MTU = I([]int64{-1, 65537, 1 << 20}[g.R.Intn(3)])
		}
	}
	if g.p(0.3) {
		cp := CaptivePortals[g.R.Intn(len(CaptivePortals))]
		f.CaptivePortal, f.CaptivePortalNorm, f.CaptivePortalOK = S(cp[0]), cp[1], Yes
	} else if g.p(0.1) {
		f.CaptivePortal = S("")
	}

	// prefixes: distinct draws from the valid pool never overlap by construction
	// except the pairs the pool deliberately contains.
	np := g.R.Intn(4)
	perm := g.R.Perm(len(validPrefixes))
	for i := 0; i < np; i++ {
		var st PrefixSt
		switch {
		case i == 0 && g.p(0.4):
			if g.p(0.5) {
				st.Prefix = MkCIDR(g.pick([]string{"", "::/64"}))
			}
		default:
			st.Prefix = MkCIDR(validPrefixes[perm[i]])
		}
		if g.hz() {
			st.Prefix = MkCIDR(g.pick(prefixPool))
		}
		st.OnLink, st.Autonomous = g.optBool(0.4), g.optBool(0.4)
		g.prefLifetimes(&st)
		f.Prefixes = append(f.Prefixes, st)
	}
	nr := g.R.Intn(4)
	perm = g.R.Perm(len(validRoutes))
	for i := 0; i < nr; i++ {
		var st RouteSt
		switch {
		case i == 0 && g.p(0.4):
			if g.p(0.5) {
				st.Prefix = MkCIDR(g.pick([]string{"", "::/0"}))
			}
		default:
			st.Prefix = MkCIDR(validRoutes[perm[i]])
		}
		if g.hz() {
			st.Prefix = MkCIDR(g.pick(routePool))
		}
		if g.p(0.5) {
			st.Preference = S(g.pick([]string{"", "low", "medium", "high"}))
		}
		st.Lifetime = g.lifetime(false)
		if g.p(0.2) {
			st.Deprecated = B(true)
			if !g.hz() && st.Lifetime != nil && st.Lifetime.Infinite {
				st.Lifetime = D(3600 * Second)
			}
		}
		f.Routes = append(f.Routes, st)
	}
	for i, n := 0, g.R.Intn(3); i < n; i++ {
		var st RDNSSSt
		st.Lifetime = g.lifetime(true)
		switch g.R.Intn(4) {
		case 0:
		case 1:
			st.HasKey = true
		default:
			perm := g.R.Perm(len(validServers))
			k := 1 + g.R.Intn(3)
			for j := 0; j < k; j++ {
				st.Servers = append(st.Servers, MkServer(validServers[perm[j]]))
			}
			if g.p(0.3) {
				pos := g.R.Intn(len(st.Servers) + 1)
				st.Servers = append(st.Servers[:pos], append([]Server{MkServer("::")}, st.Servers[pos:]...)...)
			}
			if g.hz() {
				st.Servers = append(st.Servers, MkServer(g.pick(serverPool)))
			}
		}
		f.RDNSS = append(f.RDNSS, st)
	}
	for i, n := 0, g.R.Intn(3); i < n; i++ {
		var st DNSSLSt
		st.Lifetime = g.lifetime(true)
		perm := g.R.Perm(len(namePool))
		k := 1 + g.R.Intn(3)
		for j := 0; j < k; j++ {
			st.Names = append(st.Names, namePool[perm[j]])
		}
		if g.hz() {
			if g.p(0.5) {
				st.Names = append(st.Names, st.Names[0])
			} else {
				st.Names = nil
			}
		}
		f.DNSSL = append(f.DNSSL, st)
	}
	for i, n := 0, g.R.Intn(3); i < n; i++ {
		var st PREF64St
		if g.p(0.7) {
			st.Prefix = MkCIDR(g.pick(validPref64))
		} else if g.p(0.3) {
			st.Prefix = MkCIDR("")
		}
		if g.hz() {
			st.Prefix = MkCIDR(g.pick(pref64Pool))
		}
		f.PREF64 = append(f.PREF64, st)
	}
	if g.hz() && g.p(0.15) {
		f.Unknown = true
	}
	return f
}

func (g *Gen) prefLifetimes(st *PrefixSt) {
	if g.hz() {
		st.Valid, st.Preferred = g.lifetime(false), g.lifetime(false)
		st.Deprecated = g.optBool(0.3)
		return
	}
	// valid pair: preferred <= valid
	choices := []int64{Second, 60 * Second, 1800 * Second, 4 * 3600 * Second, 24 * 3600 * Second, 30 * 24 * 3600 * Second, Infinity - Second, 2500 * 1e6}
	dep := g.p(0.2)
	if dep {
		st.Deprecated = B(true)
	}
	switch g.R.Intn(5) {
	case 0:
		// both default
	case 1:
		st.Valid = DAuto()
		st.Preferred = g.dur(choices[g.R.Intn(5)]) // <= 24h
	case 2:
		if !dep {
			st.Valid = DInf()
			if g.p(0.5) {
				st.Preferred = DInf()
			} else {
				st.Preferred = g.dur(choices[g.R.Intn(len(choices))])
			}
		}
	default:
		i := g.R.Intn(len(choices))
		j := g.R.Intn(i + 1)
		st.Valid = g.dur(choices[i])
		st.Preferred = g.dur(choices[j])
		if choices[i] < 4*3600*Second && g.p(0.3) {
			// preferred default (4h) would exceed valid; keep explicit.
		}
	}
	// An explicit valid below the 4h preferred default needs an explicit preferred.
	if st.Valid != nil && !st.Valid.Auto && !st.Valid.Infinite && st.Preferred == nil && st.Valid.NS < 4*3600*Second {
		st.Preferred = g.dur(st.Valid.NS)
	}
}

// Doc draws a document with 1–3 interface stanzas.
func (g *Gen) Doc() Doc {
	var d Doc
	n := 1 + g.R.Intn(3)
	if g.p(0.6) {
		n = 1
	}
	next := 0
	name := func() string { s := fmt.Sprintf("eth%d", next); next++; return s }
	for i := 0; i < n; i++ {
		f := g.Iface()
		if g.p(0.25) {
			k := 1 + g.R.Intn(3)
			for j := 0; j < k; j++ {
				f.Names = append(f.Names, name())
			}
			if g.hz() && g.p(0.3) {
				f.Names = append(f.Names, f.Names[0])
			}
		} else {
			f.Name = S(name())
			if g.hz() && g.p(0.2) && next > 1 {
				f.Name = S("eth0")
			}
		}
		d.Ifaces = append(d.Ifaces, f)
	}
	if g.p(0.4) {
		d.Debug = &Debug{Prometheus: g.p(0.5), PProf: g.p(0.3)}
		if g.p(0.85) {
			d.Debug.Address, d.Debug.AddrValid = S(g.pick(ValidDebug)), Yes
			if g.hz() {
				d.Debug.Address, d.Debug.AddrValid = S(g.pick(InvalidDebug)), No
			}
		}
	}
	if g.hz() && g.p(0.05) {
		d.UnknownTop = true
	}
	return d
}

// Mutate produces a hostile byte-level variant of a document text.
func Mutate(r *rand.Rand, s string) string {
	b := []byte(s)
	if len(b) == 0 {
		return "["
	}
	switch r.Intn(7) {
	case 0: // truncate
		return string(b[:r.Intn(len(b))])
	case 1: // flip a byte
		i := r.Intn(len(b))
		b[i] ^= byte(1 << uint(r.Intn(8)))
		return string(b)
	case 2: // duplicate a line
		lines := strings.Split(s, "\n")
		i := r.Intn(len(lines))
		lines = append(lines[:i+1], lines[i:]...)
		return strings.Join(lines, "\n")
	case 3: // delete a line
		lines := strings.Split(s, "\n")
		i := r.Intn(len(lines))
		lines = append(lines[:i], lines[i+1:]...)
		return strings.Join(lines, "\n")
	case 4: // replace a value by a hostile token
		toks := []string{"\"\"", "[]", "{}", "-1", "9223372036854775808", "1e999", "nan", "\"\\uD800\"", "[[", "'''", "\"9223372036854775807ns\"", "\"-9223372036854775808ns\"", "[[interfaces]]", "0x7fffffffffffffff", "true", "1979-05-27T07:32:00Z"}
		lines := strings.Split(s, "\n")
		i := r.Intn(len(lines))
		if k := strings.Index(lines[i], "="); k >= 0 {
			lines[i] = lines[i][:k+1] + " " + toks[r.Intn(len(toks))]
		}
		return strings.Join(lines, "\n")
	case 5: // swap two lines
		lines := strings.Split(s, "\n")
		i, j := r.Intn(len(lines)), r.Intn(len(lines))
		lines[i], lines[j] = lines[j], lines[i]
		return strings.Join(lines, "\n")
	default: // insert random bytes
		i := r.Intn(len(b) + 1)
		n := 1 + r.Intn(8)
		ins := make([]byte, n)
		for k := range ins {
			ins[k] = byte(r.Intn(256))
		}
		return string(b[:i]) + string(ins) + string(b[i:])
	}
}
