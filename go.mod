module verif.local

go 1.22

require (
	github.com/anishathalye/porcupine v1.3.0
	github.com/mdlayher/ndp v1.1.0
	golang.org/x/net v0.22.0
)

require (
	golang.org/x/sys v0.18.0 // indirect
	golang.org/x/text v0.14.0 // indirect
)
